#!/bin/sh
# builds the framework from files on disk only (offline)
set -e
cd "$(dirname "$0")"
export GOFLAGS=-mod=mod GOPROXY=off GOSUMDB=off GOTOOLCHAIN=local
mkdir -p bin run evidence replays
(cd cmd/vfinstr && go build -o ../../bin/vfinstr .)
(cd cmd/vfhelper && go build -o ../../bin/vfhelper .)
mkdir -p fakebin
for n in tmux zenity rz sz; do ln -sf ../bin/vfhelper fakebin/$n; done
mkdir -p fakebin-nozm
for n in tmux zenity; do ln -sf ../bin/vfhelper fakebin-nozm/$n; done
echo setup ok
