//go:build verif

package trzsz

import (
	"bytes"
	"fmt"
	"io"
	"os"
	"path/filepath"
	"runtime/debug"
	"strings"
	"syscall"
	"testing"
	"time"
)

func vfCountFDs() int {
	ents, err := os.ReadDir("/proc/self/fd")
	if err != nil {
		return -1
	}
	return len(ents)
}

// vfArchiveProduce scans srcDir like the sender does and returns the top-level NAME json, the
// archive reader and the announced size.
func vfArchiveProduce(srcDir string) (string, fileReader, *sourceFile, error) {
	list, err := checkPathsReadable([]string{srcDir}, true)
	if err != nil {
		return "", nil, nil, err
	}
	st := newTransfer(vfNewSink(), nil, false, nil)
	st.transferConfig.Protocol = 4
	files := st.archiveSourceFiles(list)
	if len(files) != 1 {
		return "", nil, nil, fmt.Errorf("expected one top-level entry, got %d", len(files))
	}
	top := files[0]
	name, err := top.marshalSourceFile()
	if err != nil {
		return "", nil, nil, err
	}
	if len(top.SubFiles) == 0 {
		return name, nil, top, nil // an empty directory is sent as a plain directory entry
	}
	rd, err := st.newArchiveReader(top)
	return name, rd, top, err
}

// vfArchiveConsume creates the receiving writer for the NAME json under dest.
func vfArchiveConsume(dest string, nameJSON string) (*trzszTransfer, fileWriter, string, error) {
	rt := newTransfer(vfNewSink(), nil, false, nil)
	rt.transferConfig.Protocol = 4
	src, err := unmarshalSourceFile(nameJSON)
	if err != nil {
		return nil, nil, "", err
	}
	w, local, err := rt.createDirOrFile(dest, src, false)
	return rt, w, local, err
}

func vfReadAllSized(rd io.Reader, sizes []int, r *vfRand, perRead func()) ([]byte, error) {
	var out bytes.Buffer
	for i := 0; ; i++ {
		n := sizes[i%len(sizes)]
		if n <= 0 {
			n = 1 + r.Intn(70000)
		}
		buf := make([]byte, n)
		m, err := rd.Read(buf)
		out.Write(buf[:m])
		if perRead != nil {
			perRead()
		}
		if err == io.EOF {
			return out.Bytes(), nil
		}
		if err != nil {
			return out.Bytes(), err
		}
		if m == 0 && i > 1<<22 {
			return out.Bytes(), fmt.Errorf("reader makes no progress")
		}
	}
}

func vfArchiveRoundTrip(c *vfCtx, srcRoot, name string, stream []byte, nameJSON string, segs [][]byte, tag string) bool {
	dest := filepath.Join(c.Dir, "dst-"+tag)
	os.RemoveAll(dest)
	os.MkdirAll(dest, 0755)
	_, w, local, err := vfArchiveConsume(dest, nameJSON)
	if err != nil {
		c.Viol("c15-consume-create", "cannot create archive writer: %v", err)
		return false
	}
	if w != nil {
		// every segment is handed over in one reused scratch buffer that is scribbled on as soon as the write has
		// returned (what io.Copy and any pump with a scratch buffer do: a writer must not keep the caller's slice)
		var scratch []byte
		for i, seg := range segs {
			if cap(scratch) < len(seg) {
				scratch = make([]byte, len(seg)*2+64)
			}
			s := scratch[:len(seg)]
			copy(s, seg)
			err := writeAll(w, s)
			for k := range s {
				s[k] = 0xAA
			}
			if err != nil {
				c.Viol("c15-write-error", "%s: write of segment %d/%d failed: %v", tag, i, len(segs), vfClip(err.Error()))
				w.Close()
				return false
			}
		}
		w.Close()
	}
	srcTree := vfSnapshot(srcRoot)
	dstTree := vfSnapshot(dest)
	if d := vfTreeSubEqual(srcTree, name, dstTree, local); d != "" {
		c.Viol("c15-tree-differs", "%s: reconstructed tree differs: %s (stream %d bytes, %d segments)", tag, d, len(stream), len(segs))
		return false
	}
	for k := range dstTree {
		if k != local && !strings.HasPrefix(k, local+"/") {
			c.Viol("c15-extra-entry", "%s: entry %q outside the reconstructed directory %q", tag, k, local)
			return false
		}
	}
	os.RemoveAll(dest)
	return true
}

func vfSmallTrees(r *vfRand, n int) []vfFileSpec {
	var specs []vfFileSpec
	specs = append(specs, vfFileSpec{Rel: "t", Dir: true})
	names := []string{"a", "b", "cc", "d", "é", "f g", "w\\s", "x..y", "q\"r"}
	for i := 0; i < n; i++ {
		p := "t"
		for d := r.Intn(3); d > 0; d-- {
			p = filepath.Join(p, names[r.Intn(len(names))]+"d")
		}
		if r.Intn(4) == 0 {
			specs = append(specs, vfFileSpec{Rel: filepath.Join(p, fmt.Sprintf("e%d", i)), Dir: true})
		} else {
			specs = append(specs, vfFileSpec{Rel: filepath.Join(p, fmt.Sprintf("%s%d", names[r.Intn(len(names))], i)), Size: r.Intn(3), Content: "rand"})
		}
	}
	return specs
}

func vfLargeTree(r *vfRand, entries int, maxFile int) []vfFileSpec {
	specs := []vfFileSpec{{Rel: "big", Dir: true}}
	dirs := []string{"big"}
	names := []string{"x", "データ", "with space", "emoji😀", "-d", ".h", "back\\slash", "dot..dot", "C:\\temp"}
	for i := 0; i < entries; i++ {
		parent := dirs[r.Intn(len(dirs))]
		if strings.Count(parent, "/") < 6 && r.Intn(5) == 0 {
			d := filepath.Join(parent, fmt.Sprintf("%s%d", names[r.Intn(len(names))], i))
			dirs = append(dirs, d)
			specs = append(specs, vfFileSpec{Rel: d, Dir: true})
			continue
		}
		size := []int{0, 1, 2, 100, 32767, 32768, 32769, 70000}[r.Intn(8)]
		if size > maxFile {
			size = maxFile
		}
		specs = append(specs, vfFileSpec{Rel: filepath.Join(parent, fmt.Sprintf("%s%d", names[r.Intn(len(names))], i)), Size: size, Content: []string{"rand", "text", "zeros"}[r.Intn(3)]})
	}
	return specs
}

func TestVF_C15(t *testing.T) {
	var cases []vfCase
	// small trees: every single cut, k-byte pieces, read sizes 1..8
	ns := vfPick(24, 240)
	for i := 0; i < ns; i++ {
		i := i
		cases = append(cases, vfCase{ID: fmt.Sprintf("small-%d", i), Run: func(c *vfCtx) {
			r := c.R
			src := filepath.Join(c.Dir, "src")
			specs := vfSmallTrees(r, 1+i%6)
			if err := vfWriteTree(src, specs, r); err != nil {
				c.Inconc("%v", err)
				return
			}
			nameJSON, rd, _, err := vfArchiveProduce(filepath.Join(src, "t"))
			if err != nil || rd == nil {
				c.Inconc("produce: %v", err)
				return
			}
			var ref []byte
			for rs := 1; rs <= 8; rs++ {
				_, rd2, _, _ := vfArchiveProduce(filepath.Join(src, "t"))
				b, err := vfReadAllSized(rd2, []int{rs}, r, nil)
				rd2.Close()
				if err != nil {
					c.Viol("c15-read-error", "read size %d: %v", rs, err)
					return
				}
				if int64(len(b)) != rd2.getSize() {
					c.Viol("c15-size-mismatch", "read size %d: produced %d bytes, announced %d", rs, len(b), rd2.getSize())
					return
				}
				if ref == nil {
					ref = b
				} else if !bytes.Equal(ref, b) {
					c.Viol("c15-stream-depends-on-read-size", "stream differs between read sizes 1 and %d", rs)
					return
				}
			}
			rd.Close()
			stream := ref
			n := int64(0)
			for cut := 0; cut <= len(stream); cut++ {
				var segs [][]byte
				if cut == 0 || cut == len(stream) {
					segs = [][]byte{stream}
				} else {
					segs = [][]byte{stream[:cut], stream[cut:]}
				}
				if !vfArchiveRoundTrip(c, src, "t", stream, nameJSON, segs, fmt.Sprintf("cut%d", cut)) {
					return
				}
				n++
			}
			for k := 1; k <= 8; k++ {
				var segs [][]byte
				for p := 0; p < len(stream); p += k {
					segs = append(segs, stream[p:vfMin(len(stream), p+k)])
				}
				if !vfArchiveRoundTrip(c, src, "t", stream, nameJSON, segs, fmt.Sprintf("pieces%d", k)) {
					return
				}
				n++
			}
			c.Obs("small_tree_segmentations", n)
			c.Obs("small_tree_stream_bytes", int64(len(stream)))
			c.Nontrivial(fmt.Sprintf("small entries=%d stream=%d", len(specs), len(stream)))
			if i < 2 {
				c.Sample(map[string]interface{}{"kind": "small tree", "entries": specs, "stream_bytes": len(stream), "single_cuts": len(stream) + 1, "piece_sizes": "1..8"})
			}
		}})
	}
	// large random trees, PRNG cuts biased to header interiors and entry boundaries
	nl := vfPick(40, 600)
	for i := 0; i < nl; i++ {
		i := i
		cases = append(cases, vfCase{ID: fmt.Sprintf("large-%d", i), Run: func(c *vfCtx) {
			r := c.R
			src := filepath.Join(c.Dir, "src")
			specs := vfLargeTree(r, r.PickInt(5, 30, 120), 70000)
			if err := vfWriteTree(src, specs, r); err != nil {
				c.Inconc("%v", err)
				return
			}
			nameJSON, rd, _, err := vfArchiveProduce(filepath.Join(src, "big"))
			if err != nil || rd == nil {
				c.Inconc("produce: %v", err)
				return
			}
			stream, err := vfReadAllSized(rd, []int{r.PickInt(1, 7, 4096, 32768, 0), r.PickInt(3, 100, 0)}, r, nil)
			rd.Close()
			if err != nil {
				c.Viol("c15-read-error", "%v", err)
				return
			}
			if int64(len(stream)) != rd.getSize() {
				c.Viol("c15-size-mismatch", "produced %d bytes, announced %d", len(stream), rd.getSize())
				return
			}
			// cuts: at LF +-1 (end of headers), random inside, and large pieces
			var segs [][]byte
			start := 0
			mode := r.Intn(3)
			for p := 0; p < len(stream); p++ {
				cut := false
				switch mode {
				case 0:
					cut = stream[p] == '\n' && r.Intn(2) == 0 || p+1 < len(stream) && stream[p+1] == '\n' && r.Intn(2) == 0
				case 1:
					cut = r.Intn(50) == 0
				default:
					cut = r.Intn(30000) == 0 || stream[p] == '\n' && r.Intn(4) == 0
				}
				if cut {
					segs = append(segs, stream[start:p+1])
					start = p + 1
				}
			}
			if start < len(stream) {
				segs = append(segs, stream[start:])
			}
			if !vfArchiveRoundTrip(c, src, "big", stream, nameJSON, segs, "rnd") {
				return
			}
			c.Obs("large_tree_entries", int64(len(specs)))
			c.Obs("large_tree_stream_bytes", int64(len(stream)))
			c.Nontrivial(fmt.Sprintf("large entries=%d stream=%d segs=%d mode=%d", len(specs), len(stream), len(segs), mode))
			if i < 2 {
				c.Sample(map[string]interface{}{"kind": "large tree", "entries": len(specs), "stream_bytes": len(stream), "segments": len(segs)})
			}
		}})
	}
	// a source file that changes length between scan and read
	nsh := vfPick(24, 200)
	for i := 0; i < nsh; i++ {
		i := i
		cases = append(cases, vfCase{ID: fmt.Sprintf("shrink-%d", i), Run: func(c *vfCtx) {
			r := c.R
			src := filepath.Join(c.Dir, "src")
			specs := vfLargeTree(r, 12, 70000)
			specs = append(specs, vfFileSpec{Rel: "big/victim.bin", Size: r.PickInt(1, 2, 100, 40000, 70000), Content: "rand"})
			specs = append(specs, vfFileSpec{Rel: "big/zz-after.bin", Size: 300, Content: "text"})
			if err := vfWriteTree(src, specs, r); err != nil {
				c.Inconc("%v", err)
				return
			}
			nameJSON, rd, top, err := vfArchiveProduce(filepath.Join(src, "big"))
			if err != nil || rd == nil {
				c.Inconc("produce: %v", err)
				return
			}
			// put the victim somewhere before the end so that entries follow it
			victim := filepath.Join(src, "big", "victim.bin")
			vi := -1
			for k, sf := range top.SubFiles {
				if sf.AbsPath == victim {
					vi = k
				}
			}
			if vi >= 0 && vi == len(top.SubFiles)-1 && len(top.SubFiles) > 1 {
				top.SubFiles[vi], top.SubFiles[0] = top.SubFiles[0], top.SubFiles[vi]
				rd, _ = newTransfer(vfNewSink(), nil, false, nil).newArchiveReader(top)
			}
			st, _ := os.Stat(victim)
			newLen := int64(r.Intn(int(st.Size())))
			midRead := i%2 == 1
			if !midRead {
				os.Truncate(victim, newLen)
			}
			truncated := !midRead
			stream, rerr := vfReadAllSized(rd, []int{r.PickInt(1, 64, 4096, 32768)}, r, func() {
				if !truncated {
					if ar, ok := rd.(*archiveFileReader); ok && ar.src != nil && ar.src.AbsPath == victim && ar.file != nil {
						os.Truncate(victim, newLen)
						truncated = true
					}
				}
			})
			rd.Close()
			if !truncated {
				c.Inconc("victim never reached")
				return
			}
			if rerr == nil {
				c.Viol("c15-shrink-not-reported", "source file shrank from %d to %d bytes (midRead=%v) but the archive reader reported no error; produced %d of announced %d bytes", st.Size(), newLen, midRead, len(stream), rd.getSize())
				return
			}
			// what was produced so far must not be mis-parsed: the writer either errors or builds a prefix
			dest := filepath.Join(c.Dir, "dst")
			os.MkdirAll(dest, 0755)
			_, w, local, err := vfArchiveConsume(dest, nameJSON)
			if err == nil && w != nil {
				werr := writeAll(w, stream)
				w.Close()
				if werr == nil {
					srcTree, dstTree := vfSnapshot(src), vfSnapshot(dest)
					for k, e := range dstTree {
						rel := strings.TrimPrefix(k, local)
						se, ok := srcTree["big"+rel]
						if !ok {
							c.Viol("c15-shrink-misparsed", "after a reported read error the partial stream produced an entry %q that does not exist in the source", k)
							return
						}
						if e.Type != se.Type {
							c.Viol("c15-shrink-misparsed", "entry %q has type %s, source has %s", k, e.Type, se.Type)
							return
						}
					}
				}
			}
			c.Obs("shrink_errors_reported", 1)
			c.Nontrivial(fmt.Sprintf("shrink mid=%v from=%d to=%d", midRead, st.Size(), newLen))
			if i < 2 {
				c.Sample(map[string]interface{}{"kind": "shrinking source", "mid_read": midRead, "from": st.Size(), "to": newLen, "error": vfClip(rerr.Error())})
			}
		}})
	}
	// descriptor use must not grow with the entry count
	for i, entries := range []int{50, 200, 800, -50, -200, -800, 300} {
		i, entries := i, entries
		shape := "few-dirs"
		if entries < 0 {
			entries = -entries
			shape = "dir-per-file" // every file is followed by a directory entry in scan order
		}
		if entries == 300 {
			shape = "empty-files" // zero-length entries never reach the data branch of the writer
		}
		cases = append(cases, vfCase{ID: fmt.Sprintf("fd-%s-%d", shape, entries), Run: func(c *vfCtx) {
			r := c.R
			src := filepath.Join(c.Dir, "src")
			specs := []vfFileSpec{{Rel: "many", Dir: true}}
			for k := 0; k < entries; k++ {
				if shape == "dir-per-file" {
					specs = append(specs, vfFileSpec{Rel: fmt.Sprintf("many/d%04d/f", k), Size: k % 5, Content: "rand"})
					continue
				}
				if shape == "empty-files" {
					specs = append(specs, vfFileSpec{Rel: fmt.Sprintf("many/d%d/f%04d", k%3, k), Size: 0, Content: "rand"})
					continue
				}
				specs = append(specs, vfFileSpec{Rel: fmt.Sprintf("many/d%d/f%04d", k%7, k), Size: k % 5, Content: "rand"})
			}
			if err := vfWriteTree(src, specs, r); err != nil {
				c.Inconc("%v", err)
				return
			}
			old := debug.SetGCPercent(-1) // finalizers must not hide a leak
			defer debug.SetGCPercent(old)
			nameJSON, rd, _, err := vfArchiveProduce(filepath.Join(src, "many"))
			if err != nil || rd == nil {
				c.Inconc("produce: %v", err)
				return
			}
			base := vfCountFDs()
			peakR := 0
			stream, err := vfReadAllSized(rd, []int{4096}, r, func() {
				if n := vfCountFDs() - base; n > peakR {
					peakR = n
				}
			})
			rd.Close()
			if err != nil {
				c.Viol("c15-read-error", "%v", err)
				return
			}
			dest := filepath.Join(c.Dir, "dst")
			os.MkdirAll(dest, 0755)
			_, w, _, err := vfArchiveConsume(dest, nameJSON)
			if err != nil {
				c.Viol("c15-consume-create", "%v", err)
				return
			}
			baseW := vfCountFDs()
			peakW := 0
			for p := 0; p < len(stream); p += 997 {
				if err := writeAll(w, stream[p:vfMin(len(stream), p+997)]); err != nil {
					c.Viol("c15-write-error", "fd case: %v", vfClip(err.Error()))
					return
				}
				if n := vfCountFDs() - baseW; n > peakW {
					peakW = n
				}
			}
			w.Close()
			c.Obs(fmt.Sprintf("fd_peak_reader_%s_%d_entries", shape, entries), int64(peakR))
			c.Obs(fmt.Sprintf("fd_peak_writer_%s_%d_entries", shape, entries), int64(peakW))
			if peakR > 8 {
				c.Viol("c15-fd-grow-reader", "archive reader held %d descriptors over the baseline while producing %d entries", peakR, entries)
				return
			}
			if peakW > 8 {
				c.Viol("c15-fd-grow-writer", "archive writer held %d descriptors over the baseline while consuming %d entries (GC disabled): descriptors in use grow with the entry count", peakW, entries)
				return
			}
			c.Nontrivial(fmt.Sprintf("fd %s entries=%d", shape, entries))
			_ = i
			c.Sample(map[string]interface{}{"kind": "descriptor use", "entries": entries, "peak_over_baseline_reader": peakR, "peak_over_baseline_writer": peakW})
		}})
	}
	// more entries than the open-file limit
	for _, shape := range []string{"nofile-64", "nofile-deep"} {
		shape := shape
		cases = append(cases, vfCase{ID: shape, Run: func(c *vfCtx) {
			r := c.R
			src := filepath.Join(c.Dir, "src")
			specs := []vfFileSpec{{Rel: "many", Dir: true}}
			for k := 0; k < 600; k++ {
				if shape == "nofile-deep" {
					break
				}
				if k%2 == 0 {
					specs = append(specs, vfFileSpec{Rel: fmt.Sprintf("many/f%04d", k), Size: 3, Content: "rand"})
				} else {
					specs = append(specs, vfFileSpec{Rel: fmt.Sprintf("many/d%04d/f", k), Size: 3, Content: "rand"})
				}
			}
			if shape == "nofile-deep" { // a chain of 90 nested directories: descriptors in use must not grow with the depth either
				p := "many"
				for d := 0; d < 90; d++ {
					p = filepath.Join(p, fmt.Sprintf("n%d", d))
					specs = append(specs, vfFileSpec{Rel: p, Dir: true}, vfFileSpec{Rel: filepath.Join(p, "f"), Size: 2, Content: "rand"})
				}
			}
			if err := vfWriteTree(src, specs, r); err != nil {
				c.Inconc("%v", err)
				return
			}
			old := debug.SetGCPercent(-1)
			defer debug.SetGCPercent(old)
			var lim syscall.Rlimit
			syscall.Getrlimit(syscall.RLIMIT_NOFILE, &lim)
			low := lim
			low.Cur = uint64(vfCountFDs() + 40)
			if err := syscall.Setrlimit(syscall.RLIMIT_NOFILE, &low); err != nil {
				c.Inconc("setrlimit: %v", err)
				return
			}
			defer syscall.Setrlimit(syscall.RLIMIT_NOFILE, &lim)
			nameJSON, rd, _, err := vfArchiveProduce(filepath.Join(src, "many"))
			if err != nil && strings.Contains(err.Error(), "too many open files") {
				c.Viol("c15-nofile-scan", "%s (600 entries with 300 sub-directories, or a chain of 90 nested directories) with ~40 spare descriptors (GC disabled): scanning the tree failed: %v", shape, vfClip(err.Error()))
				return
			}
			if err != nil || rd == nil {
				c.Inconc("produce: %v", err)
				return
			}
			stream, err := vfReadAllSized(rd, []int{4096}, r, nil)
			rd.Close()
			if err != nil {
				c.Viol("c15-nofile-reader", "600-entry tree with ~40 spare descriptors: reader failed: %v", vfClip(err.Error()))
				return
			}
			dest := filepath.Join(c.Dir, "dst")
			os.MkdirAll(dest, 0755)
			_, w, local, err := vfArchiveConsume(dest, nameJSON)
			if err != nil {
				c.Viol("c15-consume-create", "%v", err)
				return
			}
			werr := writeAll(w, stream)
			w.Close()
			syscall.Setrlimit(syscall.RLIMIT_NOFILE, &lim)
			if werr != nil {
				c.Viol("c15-nofile-writer", "600-entry tree with ~40 spare descriptors (GC disabled): writer failed: %v", vfClip(werr.Error()))
				return
			}
			if d := vfTreeSubEqual(vfSnapshot(src), "many", vfSnapshot(dest), local); d != "" {
				c.Viol("c15-tree-differs", "nofile: %s", d)
				return
			}
			c.Nontrivial(shape + ": 40 spare descriptors")
			c.Sample(map[string]interface{}{"kind": "open-file limit", "shape": shape, "entries": len(specs), "spare_descriptors": 40})
		}})
	}
	vfRunCases(t, "C15", cases, 1, 120*time.Second)
}
