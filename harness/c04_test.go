//go:build verif

package trzsz

import (
	"bytes"
	"context"
	"encoding/json"
	"fmt"
	"io"
	"os"
	"path/filepath"
	"strings"
	"testing"
	"time"
)

type vfTable struct {
	name      string
	table     *escapeTable
	protected [256]bool // keys of the table (bytes that must not appear raw)
	keys      []byte
	undefined []byte // code bytes with no entry
}

func vfTableFromChars(name string, chars [][]unicode) (*vfTable, error) {
	// serialised as a server would announce it, every character as \u00XX (legal JSON for any byte)
	var sb strings.Builder
	sb.WriteString("[")
	for i, pair := range chars {
		if i > 0 {
			sb.WriteString(",")
		}
		sb.WriteString("[")
		for j, u := range pair {
			if j > 0 {
				sb.WriteString(",")
			}
			sb.WriteString("\"")
			for _, r := range string(u) {
				fmt.Fprintf(&sb, "\\u%04x", r)
			}
			sb.WriteString("\"")
		}
		sb.WriteString("]")
	}
	sb.WriteString("]")
	js := []byte(sb.String())
	if name[0] == 'b' { // built-ins: exactly the bytes the real server marshals
		var err error
		js, err = json.Marshal(chars)
		if err != nil {
			return nil, err
		}
	}
	var t escapeTable
	if err := json.Unmarshal(js, &t); err != nil {
		return nil, fmt.Errorf("table %s rejected by the real parser: %v (%s)", name, err, js)
	}
	vt := &vfTable{name: name, table: &t}
	defined := map[byte]bool{}
	for _, pair := range chars {
		k := []rune(string(pair[0]))[0]
		code := []rune(string(pair[1]))[1]
		vt.protected[byte(k)] = true
		vt.keys = append(vt.keys, byte(k))
		defined[byte(code)] = true
	}
	for c := 0; c < 256; c++ {
		if !defined[byte(c)] {
			vt.undefined = append(vt.undefined, byte(c))
		}
	}
	return vt, nil
}

func vfRandomTable(r *vfRand, idx int) (*vfTable, error) {
	k := 1 + r.Intn(60)
	keys := map[byte]bool{escapeLeaderByte: true}
	for len(keys) < k {
		keys[byte(r.Intn(256))] = true
	}
	var codesPool []byte
	for c := 0; c < 256; c++ {
		if !keys[byte(c)] {
			codesPool = append(codesPool, byte(c))
		}
	}
	// shuffle pool
	for i := len(codesPool) - 1; i > 0; i-- {
		j := r.Intn(i + 1)
		codesPool[i], codesPool[j] = codesPool[j], codesPool[i]
	}
	var chars [][]unicode
	i := 0
	// the leader byte may itself serve as a code (the built-in table has ee -> ee ee); in a random
	// table it is given to the leader, to some other key, or to nobody
	leaderCodeFor := -1
	switch r.Intn(3) {
	case 0:
		leaderCodeFor = int(escapeLeaderByte)
	case 1:
		n := r.Intn(len(keys))
		for c := 0; c < 256; c++ {
			if keys[byte(c)] {
				if n == 0 {
					leaderCodeFor = c
					break
				}
				n--
			}
		}
	}
	for c := 0; c < 256; c++ {
		if !keys[byte(c)] {
			continue
		}
		code := codesPool[i]
		i++
		if c == leaderCodeFor {
			code = escapeLeaderByte
		}
		chars = append(chars, []unicode{unicode(rune(c)), unicode(rune(escapeLeaderByte)) + unicode(rune(code))})
	}
	return vfTableFromChars(fmt.Sprintf("random-%d(k=%d)", idx, k), chars)
}

func vfCheckRoundTrip(c *vfCtx, vt *vfTable, d []byte) bool {
	esc := escapeData(d, vt.table)
	for i, b := range esc {
		if vt.protected[b] && b != escapeLeaderByte {
			c.Viol("c04-protected-in-escaped", "table %s: escaped form of %q contains protected byte 0x%02x at %d", vt.name, vfHead(d, 40), b, i)
			return false
		}
	}
	// a raw leader in the escaped stream is always followed by a code
	out, rem, err := unescapeData(esc, vt.table, nil)
	if err != nil {
		c.Viol("c04-roundtrip-error", "table %s: unescape(escape(%q)) failed: %v", vt.name, vfHead(d, 40), err)
		return false
	}
	if len(rem) != 0 || !bytes.Equal(out, d) {
		c.Viol("c04-roundtrip-differs", "table %s: unescape(escape(%q)) = %q remaining %q", vt.name, vfHead(d, 40), vfHead(out, 40), vfHead(rem, 10))
		return false
	}
	return true
}

type vfCollect struct{ bytes.Buffer }

func (v *vfCollect) Close() error { return nil }

// vfCheckStreaming: D -> [zstd] -> escapeWriter -> cuts -> recvDataReader -> escapeReader -> [zstd] = D
func vfCheckStreaming(c *vfCtx, vt *vfTable, d []byte, compress bool, r *vfRand) bool {
	col := &vfCollect{}
	var w writeCloseFlusher = newEscapeWriter(vt.table, col)
	if compress {
		zw, err := newZstdWriter(w)
		if err != nil {
			c.Inconc("zstd writer: %v", err)
			return false
		}
		w = zw
	}
	// write in pieces
	for i := 0; i < len(d); {
		n := 1 + r.Intn(r.PickInt(3, 100, 40000))
		if i+n > len(d) {
			n = len(d) - i
		}
		if err := writeAll(w, d[i:i+n]); err != nil {
			c.Viol("c04-stream-write-error", "table %s: %v", vt.name, err)
			return false
		}
		i += n
	}
	if err := w.Close(); err != nil {
		c.Viol("c04-stream-close-error", "table %s: %v", vt.name, err)
		return false
	}
	esc := col.Bytes()
	for i, b := range esc {
		if vt.protected[b] && b != escapeLeaderByte {
			c.Viol("c04-protected-in-stream", "table %s compress=%v: escaped stream contains protected byte 0x%02x at %d", vt.name, compress, b, i)
			return false
		}
	}
	// re-segment, with a bias to cut between a leader and its code
	var segs [][]byte
	start := 0
	policy := r.Intn(4)
	if policy == 0 && len(esc) > 200000 {
		policy = 2 // a million one-byte segments cost gigabytes under the race detector
	}
	for i := 0; i < len(esc); i++ {
		cut := false
		switch policy {
		case 0:
			cut = true // one byte each
		case 1:
			cut = esc[i] == escapeLeaderByte // right after every leader byte
		case 2:
			cut = r.Intn(7) == 0
		default:
			cut = r.Intn(3000) == 0 || esc[i] == escapeLeaderByte && r.Intn(2) == 0
		}
		if cut || i == len(esc)-1 {
			segs = append(segs, esc[start:i+1])
			start = i + 1
		}
	}
	cc, cancel := context.WithCancelCause(context.Background())
	defer cancel(nil)
	ctx := &pipelineContext{cc, cancel, make(chan struct{}, 1)}
	ch := make(chan []byte, len(segs)+1)
	for _, s := range segs {
		ch <- s
	}
	close(ch)
	var rd readCloser = newEscapeReader(vt.table, newRecvDataReader(ctx, ch))
	if compress {
		zr, err := newZstdReader(rd)
		if err != nil {
			c.Inconc("zstd reader: %v", err)
			return false
		}
		rd = zr
	}
	defer rd.Close()
	dstSize := r.PickInt(1, 2, 3, 7, 4096, 32768)
	var got bytes.Buffer
	buf := make([]byte, dstSize)
	for {
		n, err := rd.Read(buf)
		got.Write(buf[:n])
		if err == io.EOF {
			break
		}
		if err != nil {
			c.Viol("c04-stream-read-error", "table %s compress=%v policy=%d dst=%d: %v", vt.name, compress, policy, dstSize, err)
			return false
		}
		if got.Len() > len(d)+1024 {
			break
		}
	}
	if !bytes.Equal(got.Bytes(), d) {
		i := 0
		for i < len(d) && i < got.Len() && d[i] == got.Bytes()[i] {
			i++
		}
		c.Viol("c04-stream-differs", "table %s compress=%v policy=%d dst=%d: decoded stream differs from the input at offset %d (input len %d, decoded len %d, %d segments)", vt.name, compress, policy, dstSize, i, len(d), got.Len(), len(segs))
		return false
	}
	c.Obs("stream_bytes", int64(len(d)))
	c.Obs("stream_segments", int64(len(segs)))
	return true
}

func vfCheckUndefined(c *vfCtx, vt *vfTable) bool {
	for _, code := range vt.undefined {
		_, _, err := unescapeData([]byte{'x', escapeLeaderByte, code, 'y'}, vt.table, nil)
		if err == nil {
			c.Viol("c04-undefined-accepted", "table %s: undefined escape pair ee %02x was decoded instead of rejected", vt.name, code)
			return false
		}
		// streaming reader, pair split across reads
		cc, cancel := context.WithCancelCause(context.Background())
		ctx := &pipelineContext{cc, cancel, make(chan struct{}, 1)}
		ch := make(chan []byte, 3)
		ch <- []byte{'x', escapeLeaderByte}
		ch <- []byte{code, 'y'}
		close(ch)
		rd := newEscapeReader(vt.table, newRecvDataReader(ctx, ch))
		var rerr error
		buf := make([]byte, 16)
		for i := 0; i < 8; i++ {
			_, e := rd.Read(buf)
			if e != nil {
				rerr = e
				break
			}
		}
		cancel(nil)
		if rerr == nil || rerr == io.EOF {
			c.Viol("c04-undefined-accepted-stream", "table %s: streaming reader accepted undefined pair ee %02x split across reads (err=%v)", vt.name, code, rerr)
			return false
		}
		c.Obs("undefined_pairs_rejected", 1)
	}
	return true
}

// vfCheckLegacyBlocks drives the block-by-block receiver (protocol 1, and peers older than the pipeline): every DATA
// block is escaped on its own, so a block that ends inside an escape pair is malformed and must be rejected, never
// completed by guessing; well-formed blocks must come back unchanged.
func vfCheckLegacyBlocks(c *vfCtx, vt *vfTable, d []byte, r *vfRand) bool {
	if len(d) > 6000 {
		d = d[:6000]
	}
	newT := func() *trzszTransfer {
		t := newTransfer(io.Discard, nil, false, nil)
		t.transferConfig.Binary = true
		t.transferConfig.EscapeTable = vt.table
		t.transferConfig.Timeout = 60
		return t
	}
	t := newT()
	var blocks [][]byte
	for i := 0; i < len(d); {
		n := 1 + r.Intn(r.PickInt(2, 40, 2000))
		if i+n > len(d) {
			n = len(d) - i
		}
		blocks = append(blocks, d[i:i+n])
		i += n
	}
	for bi, blk := range blocks {
		esc := escapeData(blk, vt.table)
		wire := append([]byte(fmt.Sprintf("#DATA:%d\n", len(esc))), esc...)
		// delivered in arbitrary pieces
		for i := 0; i < len(wire); {
			n := 1 + r.Intn(r.PickInt(1, 7, 5000))
			if i+n > len(wire) {
				n = len(wire) - i
			}
			t.addReceivedData(append([]byte(nil), wire[i:i+n]...), false)
			i += n
		}
		got, err := t.recvData()
		if err != nil || !bytes.Equal(got, blk) {
			c.Viol("c04-legacy-block-roundtrip", "table %s: block %d (%d bytes, escaped %d) came back from the block receiver as %d bytes, err %v", vt.name, bi, len(blk), len(esc), len(got), err)
			return false
		}
		c.Obs("legacy_blocks_roundtrip", 1)
	}
	// malformed: a block that ends with a leader whose code is missing (cut inside a pair, or a stray leader appended)
	var probes [][]byte
	probes = append(probes, []byte{escapeLeaderByte}, append(escapeData([]byte("AB"), vt.table), escapeLeaderByte))
	for _, k := range vt.keys {
		esc := escapeData([]byte{'x', k, 'y'}, vt.table)
		if i := bytes.IndexByte(esc, escapeLeaderByte); i >= 0 {
			probes = append(probes, append([]byte(nil), esc[:i+1]...))
		}
		if len(probes) > 6 {
			break
		}
	}
	for _, p := range probes {
		t := newT()
		// the rest of the pair follows as the next block, the way a peer that splits pairs across blocks would send it
		t.addReceivedData([]byte(fmt.Sprintf("#DATA:%d\n", len(p))), false)
		t.addReceivedData(append([]byte(nil), p...), false)
		t.addReceivedData([]byte("#DATA:2\n1C"), false)
		got, err := t.recvData()
		if err == nil {
			c.Viol("c04-dangling-leader-accepted", "table %s: a DATA block ending in a leader without its code (% x) was accepted by the block receiver as %q instead of being rejected", vt.name, p, got)
			return false
		}
		c.Obs("legacy_dangling_leader_rejected", 1)
	}
	return true
}

func vfBiasedData(r *vfRand, vt *vfTable, n int) []byte {
	d := r.Bytes(n)
	mode := r.Intn(4)
	for i := 0; i < n; i++ {
		switch mode {
		case 0: // mostly protected bytes
			if r.Intn(3) != 0 {
				d[i] = vt.keys[r.Intn(len(vt.keys))]
			}
		case 1: // runs of the leader
			if r.Intn(4) == 0 {
				run := 1 + r.Intn(9)
				for j := 0; j < run && i+j < n; j++ {
					d[i+j] = escapeLeaderByte
				}
				i += run
			}
		case 2: // compressible text with tildes
			d[i] = "abc~ \n\x1b\x18\xee"[r.Intn(9)]
		}
	}
	return d
}

func TestVF_C04(t *testing.T) {
	var cases []vfCase
	builtin := func(all bool) *vfTable {
		vt, err := vfTableFromChars(fmt.Sprintf("builtin(escapeAll=%v)", all), getEscapeChars(all))
		if err != nil {
			panic(err)
		}
		return vt
	}
	for _, all := range []bool{false, true} {
		all := all
		// all single bytes and all byte pairs, split in 16 cases by first byte range
		for part := 0; part < 16; part++ {
			part := part
			cases = append(cases, vfCase{ID: fmt.Sprintf("pairs-all%v-%d", all, part), Run: func(c *vfCtx) {
				vt := builtin(all)
				n := int64(0)
				for a := part * 16; a < part*16+16; a++ {
					if !vfCheckRoundTrip(c, vt, []byte{byte(a)}) {
						return
					}
					for b := 0; b < 256; b++ {
						if !vfCheckRoundTrip(c, vt, []byte{byte(a), byte(b)}) {
							return
						}
						n++
					}
				}
				c.Obs("byte_pairs", n)
				c.Nontrivial(fmt.Sprintf("pairs %s part %d", vt.name, part))
			}})
		}
		cases = append(cases, vfCase{ID: fmt.Sprintf("undefined-all%v", all), Run: func(c *vfCtx) {
			vt := builtin(all)
			if vfCheckUndefined(c, vt) {
				c.Nontrivial("undefined " + vt.name)
				c.Sample(map[string]interface{}{"table": vt.name, "undefined_codes_checked": len(vt.undefined)})
			}
		}})
	}
	ntab := vfPick(200, 5000)
	for i := 0; i < ntab; i++ {
		i := i
		cases = append(cases, vfCase{ID: fmt.Sprintf("table-%d", i), Run: func(c *vfCtx) {
			var vt *vfTable
			var err error
			switch i % 10 {
			case 0:
				vt = builtin(false)
			case 1:
				vt = builtin(true)
			default:
				vt, err = vfRandomTable(c.R, i)
			}
			if err != nil {
				c.Viol("c04-table-rejected", "%v", err)
				return
			}
			size := c.R.PickInt(0, 1, 2, 100, 5000, 70000, 300000)
			if vfThorough() && c.R.Intn(20) == 0 {
				size = 1 << 20
			}
			d := vfBiasedData(c.R, vt, size)
			if !vfCheckRoundTrip(c, vt, d) {
				return
			}
			needEsc := 0
			for _, b := range d {
				if vt.protected[b] {
					needEsc++
				}
			}
			c.Obs("payload_bytes_needing_escape", int64(needEsc))
			for _, compress := range []bool{false, true} {
				if !vfCheckStreaming(c, vt, d, compress, c.R) {
					return
				}
			}
			if !vfCheckLegacyBlocks(c, vt, d, c.R) {
				return
			}
			if i%10 >= 2 && i%4 == 0 {
				if !vfCheckUndefined(c, vt) {
					return
				}
			}
			c.Nontrivial(fmt.Sprintf("%s size=%d", vt.name, size))
			if i < 4 {
				c.Sample(map[string]interface{}{"table": vt.name, "keys": len(vt.keys), "payload": size, "needing_escape": needEsc})
			}
		}})
	}
	// (4) wire invariant on real binary uploads through the filter
	nw := vfPick(24, 200)
	for i := 0; i < nw; i++ {
		i := i
		cases = append(cases, vfCase{ID: fmt.Sprintf("wire-%d", i), Run: func(c *vfCtx) {
			r := c.R
			cfg := vfCfg{Dir: "up", Binary: true, Escape: i%2 == 0, Timeout: 60, Compress: r.Intn(3), Protocol: []int{0, 1, 2, 3}[(i/2)%4], // 1: the chunk-by-chunk sender of old peers
				Bufsize: int64(r.PickInt(1024, 65536, 10<<20)), Directory: r.Intn(2) == 0, Overwrite: r.Intn(2) == 0,
				Seg: r.PickStr("all", "rand", "coalesce"), SegK: 4093, Direct: r.Intn(4) == 0}
			specs := []vfFileSpec{
				{Rel: "esc~file.bin", Size: r.PickInt(1, 600, 20000, 200000), Content: "esc"},
				{Rel: "rnd.bin", Size: r.PickInt(0, 513, 140000), Content: "rand"},
			}
			tops := []string{"esc~file.bin", "rnd.bin"}
			vfFidelityCase(c, cfg, tops, specs, nil, func(s *vfSession) {
				vt := builtin(cfg.Escape)
				tap := s.cliW().Tap()
				msgs := s.cliW().Msgs()
				from, to := int64(-1), int64(len(tap))
				for _, m := range msgs {
					if m.Type == "ACT" && from < 0 {
						from = m.End
					}
					if m.Type == "EXIT" || m.Type == "fail" || m.Type == "FAIL" {
						to = m.Start
					}
				}
				if from < 0 {
					c.Inconc("no ACT on the tap")
					return
				}
				if !s.st.transferConfig.Binary {
					c.Inconc("binary mode was not negotiated")
					return
				}
				for off := from; off < to; off++ {
					b := tap[off]
					if vt.protected[b] && b != escapeLeaderByte {
						c.Viol("c04-wire-protected-byte", "client wrote protected byte 0x%02x at offset %d of its output (binary upload, escapeAll=%v); context %q", b, off, cfg.Escape, tap[vfMax(0, int(off)-20):vfMin(len(tap), int(off)+5)])
						return
					}
				}
				// count payload bytes that needed escaping: leaders inside DATA blocks
				leaders := 0
				for _, m := range msgs {
					if m.Type == "DATA" && m.BinLen > 0 {
						leaders += bytes.Count(tap[m.Start:m.End], []byte{escapeLeaderByte})
					}
				}
				c.Obs("wire_bytes_checked", to-from)
				c.Obs("wire_escape_leaders", int64(leaders))
			})
			if c.Failed() {
				return
			}
			_ = os.Remove(filepath.Join(c.Dir, "x"))
			_ = strings.TrimSpace
		}})
	}
	vfRunCases(t, "C04", cases, 3, 300*time.Second)
}
