//go:build verif

package trzsz

import (
	"fmt"
	"os"
	"path/filepath"
	"regexp"
	"strings"
	"testing"
	"time"
)

var vfFreshNameRe = regexp.MustCompile(`^(.*)\.(\d+)$`)

// vfC07Oracle: nothing that existed is touched; every incoming path sits under one fresh reported name.
func vfC07Oracle(c *vfCtx, cfg vfCfg, srcTree vfTree, tops []string, before, after vfTree, names []string) bool {
	if d := vfTreeUnchanged(before, after, nil); d != "" {
		c.Viol("c07-existing-touched", "%s; cfg=%s tops=%q reported=%q", d, cfg, tops, names)
		return false
	}
	if len(names) != len(tops) {
		c.Viol("c07-name-count", "reported %d names %q for %d source paths %q", len(names), names, len(tops), tops)
		return false
	}
	beforeTop := map[string]bool{}
	for k := range before {
		beforeTop[strings.SplitN(k, string(os.PathSeparator), 2)[0]] = true
	}
	seen := map[string]bool{}
	for i, top := range tops {
		n := names[i]
		base := filepath.Base(top)
		if beforeTop[n] {
			c.Viol("c07-existing-name-reused", "incoming %q was stored under %q, which already existed", base, n)
			return false
		}
		if seen[n] {
			c.Viol("c07-name-dup", "name %q used twice: %q", n, names)
			return false
		}
		seen[n] = true
		if n != base {
			m := vfFreshNameRe.FindStringSubmatch(n)
			if m == nil || m[1] != base {
				c.Viol("c07-name-form", "incoming %q stored under %q, which is neither the name nor name.N", base, n)
				return false
			}
			c.Obs("renamed_to_fresh_name", 1)
		}
		if d := vfTreeSubEqual(srcTree, top, after, n); d != "" {
			c.Viol("c07-tree-differs", "incoming %q under %q: %s", top, n, d)
			return false
		}
	}
	for k := range after {
		t := strings.SplitN(k, string(os.PathSeparator), 2)[0]
		if _, ok := before[k]; !ok && !seen[t] {
			c.Viol("c07-unreported-entry", "new entry %q belongs to no reported name %q", k, names)
			return false
		}
	}
	return true
}

func TestVF_C07(t *testing.T) {
	var cases []vfCase
	n := vfPick(130, 1400)
	for i := 0; i < n; i++ {
		i := i
		cases = append(cases, vfCase{ID: fmt.Sprintf("c07-%d", i), Run: func(c *vfCtx) {
			r := c.R
			cfg := vfCfg{Timeout: 60, Dir: r.PickStr("up", "down"), Directory: r.Intn(4) != 0, Protocol: r.PickInt(0, 1, 2, 3, 4),
				Binary: r.Intn(3) == 0, Quiet: r.Intn(2) == 0, Compress: r.Intn(3), Direct: r.Intn(4) == 0, Bufsize: int64(r.PickInt(1024, 1<<20))}
			src := filepath.Join(c.Dir, "src")
			dst := filepath.Join(c.Dir, "dst")
			os.MkdirAll(dst, 0755)
			// incoming set
			var specs []vfFileSpec
			var tops []string
			scen := r.PickStr("file", "file", "dir", "samebase", "mixed", "longname", "exhausted", "emptydir")
			if !cfg.Directory && (scen == "dir" || scen == "mixed" || scen == "emptydir") {
				scen = "file"
			}
			switch scen {
			case "file", "exhausted":
				tops = []string{"data.bin"}
				specs = []vfFileSpec{{Rel: "data.bin", Size: r.PickInt(0, 1, 700, 20000), Content: "rand"}}
			case "dir":
				tops = []string{"proj"}
				specs = []vfFileSpec{{Rel: "proj", Dir: true}, {Rel: "proj/a.txt", Size: 300, Content: "text"}, {Rel: "proj/sub/b.bin", Size: r.PickInt(0, 5000), Content: "rand"}, {Rel: "proj/empty", Dir: true}}
			case "emptydir": // entries that carry no data stream
				tops = []string{"hollow", "data.bin", "nest"}
				specs = []vfFileSpec{{Rel: "hollow", Dir: true}, {Rel: "data.bin", Size: 33, Content: "rand"}, {Rel: "nest", Dir: true}, {Rel: "nest/only-empty", Dir: true}}
			case "samebase":
				tops = []string{"p1/same.txt", "p2/same.txt", "p3/same.txt"}
				specs = []vfFileSpec{{Rel: "p1/same.txt", Size: 10, Content: "text"}, {Rel: "p2/same.txt", Size: 20, Content: "rand"}, {Rel: "p3/same.txt", Size: 0}}
			case "mixed":
				tops = []string{"proj", "data.bin", "q/proj"}
				specs = []vfFileSpec{{Rel: "proj", Dir: true}, {Rel: "proj/a.txt", Size: 30, Content: "text"}, {Rel: "data.bin", Size: 999, Content: "rand"}, {Rel: "q/proj", Dir: true}, {Rel: "q/proj/z", Size: 5, Content: "text"}}
			case "longname":
				ln := strings.Repeat("L", 251) + ".bin" // 255 bytes
				tops = []string{ln}
				specs = []vfFileSpec{{Rel: ln, Size: 64, Content: "rand"}}
			}
			if err := vfWriteTree(src, specs, vfNewRand(c.ID, "src")); err != nil {
				c.Inconc("%v", err)
				return
			}
			// prior destination state
			prior := r.PickStr("file", "dir", "series-gap", "file-and-0", "none", "readonly")
			expectFail := false
			mk := func(rel string, dir bool) {
				p := filepath.Join(dst, rel)
				if dir {
					os.MkdirAll(p, 0755)
					os.WriteFile(filepath.Join(p, "old-inside.txt"), []byte("old content inside "+rel), 0644)
				} else {
					os.MkdirAll(filepath.Dir(p), 0755)
					os.WriteFile(p, []byte("old content of "+rel), 0644)
				}
			}
			for _, top := range tops {
				base := filepath.Base(top)
				switch prior {
				case "file":
					mk(base, false)
				case "dir":
					mk(base, true)
				case "series-gap":
					mk(base, r.Intn(2) == 0)
					mk(base+".0", false)
					mk(base+".1", true)
					mk(base+".3", false)
				case "file-and-0":
					mk(base, false)
					mk(base+".0", r.Intn(2) == 0)
				case "readonly":
					mk(base, false)
					os.Chmod(filepath.Join(dst, base), 0444)
				}
			}
			if scen == "exhausted" {
				mk("data.bin", false)
				for k := 0; k < 1000; k++ {
					os.WriteFile(filepath.Join(dst, fmt.Sprintf("data.bin.%d", k)), []byte{byte(k)}, 0644)
				}
				expectFail = true
			}
			if scen == "longname" && prior != "none" {
				expectFail = true // name.0 would exceed the file-name limit: must fail, not reuse
			}
			os.WriteFile(filepath.Join(dst, "bystander.txt"), []byte("bystander"), 0644)
			// settle mtimes
			old := time.Now().Add(-time.Hour)
			filepath.Walk(dst, func(p string, info os.FileInfo, err error) error {
				if err == nil {
					os.Chtimes(p, old, old)
				}
				return nil
			})
			var paths []string
			for _, t := range tops {
				paths = append(paths, filepath.Join(src, t))
			}
			srcTree := vfSnapshot(src)
			repeats := 1
			if !expectFail && scen != "longname" && r.Intn(3) == 0 {
				repeats = 3 // (a 255-byte name cannot be repeated: name.0 would exceed the file-name limit)
			}
			c.Replay(map[string]interface{}{"cfg": cfg, "scenario": scen, "prior": prior, "repeats": repeats})
			for rep := 0; rep < repeats; rep++ {
				before := vfSnapshot(dst)
				s, so, co, fin := vfRunTransfer(c, cfg, paths, dst, 120*time.Second)
				if !fin {
					return
				}
				after := vfSnapshot(dst)
				s.Close()
				if expectFail {
					if so.Kind == "success" || co.Kind == "success" {
						c.Viol("c07-no-fresh-name-but-success", "no fresh name is available (%s/%s) yet the transfer reports success: server=%s client=%s reported=%q", scen, prior, so.Kind, co.Kind, vfReportedNames(cfg, so, co))
						return
					}
					if d := vfTreeUnchanged(before, after, nil); d != "" {
						c.Viol("c07-existing-touched", "failed transfer (%s/%s): %s", scen, prior, d)
						return
					}
					for k := range after {
						if _, ok := before[k]; !ok {
							c.Viol("c07-failed-but-created", "failed transfer (%s/%s) left a new entry %q", scen, prior, k)
							return
						}
					}
					c.Obs("refusals_checked", 1)
					continue
				}
				if so.Kind != "success" || co.Kind != "success" {
					if vfIsTimeoutText(so.Text) || vfIsTimeoutText(co.Text) {
						c.Slow("c07-timeout", "transfer ended in a timeout: server=%q client=%q cfg=%s", vfClip(so.Text), vfClip(co.Text), cfg)
					} else {
						c.Viol("c07-transfer-failed:"+vfErrClass(so.Text+"|"+co.Text), "transfer into a pre-populated destination (%s/%s) failed: server=%s/%q client=%s/%q cfg=%s", scen, prior, so.Kind, vfClip(so.Text), co.Kind, vfClip(co.Text), cfg)
					}
					return
				}
				if !vfC07Oracle(c, cfg, srcTree, tops, before, after, vfReportedNames(cfg, so, co)) {
					return
				}
				c.Obs("preexisting_entries_compared", int64(len(before)))
			}
			c.Nontrivial(fmt.Sprintf("%s %s/%s p%d d%v rep%d direct%v", cfg.Dir, scen, prior, cfg.Protocol, cfg.Directory, repeats, cfg.Direct))
			if i < 3 {
				c.Sample(map[string]interface{}{"cfg": cfg.sig(), "incoming": scen, "prior": prior, "repeats": repeats})
			}
		}})
	}
	vfRunCases(t, "C07", cases, 3, 400*time.Second)
}
