//go:build verif

package trzsz

import (
	"bytes"
	"fmt"
	"runtime"
	"strings"
	"testing"
	"time"
)

// ---- reference model: one cursor over the concatenated stream

type vfBufOp struct {
	Kind string // line, junk, block
	N    int
}

func (o vfBufOp) String() string {
	if o.Kind == "block" {
		return fmt.Sprintf("block(%d)", o.N)
	}
	return o.Kind
}

type vfBufRes struct {
	Data        []byte
	Interrupted bool
}

// vfModelOp applies op at cursor over the bytes available so far.
// ok=false means "not completable with these bytes".
func vfModelOp(stream []byte, cur int, op vfBufOp) (res vfBufRes, next int, ok bool) {
	switch op.Kind {
	case "block":
		if cur+op.N > len(stream) {
			return res, cur, false
		}
		return vfBufRes{Data: stream[cur : cur+op.N]}, cur + op.N, true
	case "line", "junk":
		var acc []byte
		for {
			i := bytes.IndexByte(stream[cur:], '\n')
			var seg []byte
			if i < 0 {
				seg = stream[cur:]
			} else {
				seg = stream[cur : cur+i]
			}
			if bytes.IndexByte(seg, 0x03) >= 0 {
				return vfBufRes{Interrupted: true}, len(stream), true
			}
			if i < 0 {
				return res, cur, false
			}
			acc = append(acc, seg...)
			cur += i + 1
			if op.Kind == "junk" && len(acc) > 0 && acc[len(acc)-1] == '\r' {
				acc = acc[:len(acc)-1]
				continue
			}
			return vfBufRes{Data: acc}, cur, true
		}
	}
	return res, cur, false
}

func vfRealOp(b *trzszBuffer, op vfBufOp) vfBufRes {
	var data []byte
	var err error
	switch op.Kind {
	case "line":
		data, err = b.readLine(false, nil)
	case "junk":
		data, err = b.readLine(true, nil)
	case "block":
		data, err = b.readBinary(op.N, nil)
	}
	if err != nil {
		if strings.Contains(err.Error(), "Interrupted") {
			return vfBufRes{Interrupted: true}
		}
		return vfBufRes{Data: []byte("ERR:" + err.Error())}
	}
	return vfBufRes{Data: append([]byte(nil), data...)}
}

var vfSentinel = bytes.Repeat([]byte("\x03\n"), 24)

// vfBufCheckSync feeds all segments (plus a sentinel) and then issues the completable ops.
// Returns "" or a description of the first disagreement.
func vfBufCheckSync(b *trzszBuffer, stream []byte, cuts uint32, ops []vfBufOp) (string, bool) {
	// segments: bit i of cuts set => cut after byte i
	start := 0
	for i := 0; i < len(stream); i++ {
		if i == len(stream)-1 || cuts&(1<<uint(i)) != 0 {
			b.addBuffer(stream[start : i+1])
			start = i + 1
		}
	}
	b.addBuffer(vfSentinel)
	cur := 0
	interrupted := false
	for k, op := range ops {
		want, next, ok := vfModelOp(stream, cur, op)
		if !ok {
			break // not completable: not issued
		}
		got := vfRealOp(b, op)
		if got.Interrupted != want.Interrupted || (!want.Interrupted && !bytes.Equal(got.Data, want.Data)) {
			return fmt.Sprintf("op %d %s at cursor %d of stream %q cuts %b: model=%q/int=%v real=%q/int=%v", k, op, cur, stream, cuts, want.Data, want.Interrupted, got.Data, got.Interrupted), false
		}
		cur = next
		if want.Interrupted {
			interrupted = true
			break
		}
	}
	// drain: the unread remainder must come back from popBuffer exactly
	var rest []byte
	for {
		p := b.popBuffer()
		if p == nil {
			break
		}
		rest = append(rest, p...)
	}
	if !interrupted {
		want := append(append([]byte(nil), stream[cur:]...), vfSentinel...)
		if !bytes.Equal(rest, want) {
			return fmt.Sprintf("popBuffer remainder after ops %v on stream %q cuts %b: want %q got %q", ops, stream, cuts, want, rest), false
		}
	}
	return "", true
}

func vfOpSeqs(maxLen int, blockSizes []int) [][]vfBufOp {
	base := []vfBufOp{{Kind: "line"}, {Kind: "junk"}}
	for _, n := range blockSizes {
		base = append(base, vfBufOp{"block", n})
	}
	var out [][]vfBufOp
	var rec func(prefix []vfBufOp)
	rec = func(prefix []vfBufOp) {
		if len(prefix) > 0 {
			out = append(out, append([]vfBufOp(nil), prefix...))
		}
		if len(prefix) == maxLen {
			return
		}
		for _, o := range base {
			rec(append(prefix, o))
		}
	}
	rec(nil)
	return out
}

// vfBufCheckIncremental feeds segments one by one while a reader goroutine issues the ops;
// every op the model calls completable must have returned before the next segment is supplied.
func vfBufCheckIncremental(c *vfCtx, stream []byte, segs [][]byte, ops []vfBufOp) {
	b := newTrzszBuffer()
	results := make(chan vfBufRes, len(ops)+1)
	quit := make(chan struct{})
	go func() {
		for _, op := range ops {
			select {
			case <-quit:
				return
			default:
			}
			r := vfRealOp(b, op)
			results <- r
			if r.Interrupted {
				return
			}
		}
	}()
	defer func() {
		close(quit)
		b.stopBuffer()
	}()
	fed := 0
	cur := 0
	opIdx := 0
	for si := 0; si <= len(segs); si++ {
		// ops completable with what has been fed so far
		for opIdx < len(ops) {
			want, next, ok := vfModelOp(stream[:fed], cur, ops[opIdx])
			if !ok {
				break
			}
			var got vfBufRes
			deadline := time.Now().Add(10 * time.Second)
			gotIt := false
			for spins := 0; !gotIt; spins++ {
				select {
				case got = <-results:
					gotIt = true
				default:
					if time.Now().After(deadline) {
						c.Slow("c03-not-prompt", "op %d %s is completable after %d of %d bytes (segment %d of %d) but did not return; stream head %q", opIdx, ops[opIdx], fed, len(stream), si, len(segs), vfHead(stream, 80))
						return
					}
					if spins < 200 {
						runtime.Gosched()
					} else {
						time.Sleep(200 * time.Microsecond)
					}
				}
			}
			c.Obs("ops_prompt", 1)
			if got.Interrupted != want.Interrupted || (!want.Interrupted && !bytes.Equal(got.Data, want.Data)) {
				c.Viol("c03-mismatch-"+ops[opIdx].Kind, "op %d %s: model=%q/int=%v real=%q/int=%v (stream len %d, %d segments, head %q)", opIdx, ops[opIdx], vfHead(want.Data, 120), want.Interrupted, vfHead(got.Data, 120), got.Interrupted, len(stream), len(segs), vfHead(stream, 80))
				return
			}
			cur = next
			opIdx++
			if want.Interrupted {
				return
			}
		}
		if si < len(segs) {
			b.addBuffer(segs[si])
			fed += len(segs[si])
		}
	}
	c.Obs("ops_compared", int64(opIdx))
}

func vfHead(b []byte, n int) []byte {
	if len(b) > n {
		return b[:n]
	}
	return b
}

// vfSegment cuts a stream by policy.
func vfSegment(r *vfRand, stream []byte, policy string) [][]byte {
	var segs [][]byte
	switch policy {
	case "one":
		for i := range stream {
			segs = append(segs, stream[i:i+1])
		}
	case "32k":
		for i := 0; i < len(stream); i += 32768 {
			segs = append(segs, stream[i:vfMin(len(stream), i+32768)])
		}
	case "delim":
		// cut at every delimiter +-1
		start := 0
		for i, b := range stream {
			if b == '\n' || b == '\r' || b == '!' || b == 0xee || b == 0x1b {
				for _, cut := range []int{i, i + 1} {
					if cut > start && cut <= len(stream) && r.Intn(2) == 0 {
						segs = append(segs, stream[start:cut])
						start = cut
					}
				}
			}
		}
		if start < len(stream) {
			segs = append(segs, stream[start:])
		}
	default: // rand
		for i := 0; i < len(stream); {
			n := 1 + r.Intn(r.PickInt(3, 17, 200, 5000, 40000))
			if i+n > len(stream) {
				n = len(stream) - i
			}
			segs = append(segs, stream[i:i+n])
			i += n
		}
	}
	return segs
}

func TestVF_C03(t *testing.T) {
	var cases []vfCase
	alphabet := []byte{'a', 'b', '\n', '\r', 0x03}
	maxLen := vfPick(5, 7)
	seqs := vfOpSeqs(3, []int{0, 1, 2})
	// bounded-exhaustive part: one case per (length, first two symbols)
	for L := 1; L <= maxLen; L++ {
		for p0 := 0; p0 < len(alphabet); p0++ {
			for p1 := 0; p1 < len(alphabet); p1++ {
				if L == 1 && p1 > 0 {
					continue
				}
				L, p0, p1 := L, p0, p1
				cases = append(cases, vfCase{ID: fmt.Sprintf("exh-L%d-%d-%d", L, p0, p1), Run: func(c *vfCtx) {
					b := newTrzszBuffer()
					stream := make([]byte, L)
					idx := make([]int, L)
					idx[0] = p0
					if L > 1 {
						idx[1] = p1
					}
					free := L - 2
					if free < 0 {
						free = 0
					}
					total := 1
					for i := 0; i < free; i++ {
						total *= len(alphabet)
					}
					var nseq, nstream int64
					blockLen := vfBufOp{"block", L}
					for v := 0; v < total; v++ {
						x := v
						for i := 2; i < L; i++ {
							idx[i] = x % len(alphabet)
							x /= len(alphabet)
						}
						for i := 0; i < L; i++ {
							stream[i] = alphabet[idx[i]]
						}
						nstream++
						for cuts := uint32(0); cuts < 1<<uint(L-1); cuts++ {
							for _, ops := range seqs {
								nseq++
								if msg, ok := vfBufCheckSync(b, stream, cuts, ops); !ok {
									c.Viol("c03-exh-mismatch-"+ops[0].Kind, "%s", msg)
									return
								}
							}
							// the whole stream as one block, and block(len) followed by a line
							if msg, ok := vfBufCheckSync(b, stream, cuts, []vfBufOp{blockLen, {Kind: "line"}}); !ok {
								c.Viol("c03-exh-mismatch-block", "%s", msg)
								return
							}
							nseq++
						}
					}
					c.Obs("exhaustive_streams", nstream)
					c.Obs("exhaustive_op_sequences", nseq)
					c.Nontrivial(fmt.Sprintf("exh L=%d prefix=%q", L, stream[:vfMin(2, L)]))
					c.Sample(map[string]interface{}{"kind": "bounded-exhaustive", "length": L, "streams": nstream, "segmentations_each": 1 << uint(L-1), "op_sequences_each": len(seqs) + 1})
				}})
			}
		}
	}
	// random part: long protocol-shaped streams, incremental feeding with promptness
	nr := vfPick(1500, 60000)
	for i := 0; i < nr; i++ {
		i := i
		cases = append(cases, vfCase{ID: fmt.Sprintf("rnd-%d", i), Run: func(c *vfCtx) {
			r := c.R
			var stream []byte
			var ops []vfBufOp
			nmsg := 1 + r.Intn(12)
			maxBlock := r.PickInt(10, 300, 5000, 70000)
			for m := 0; m < nmsg; m++ {
				switch r.Intn(5) {
				case 0: // binary block with embedded LF/CR
					n := r.Intn(maxBlock)
					hdr := fmt.Sprintf("#DATA:%d\n", n)
					stream = append(stream, hdr...)
					ops = append(ops, vfBufOp{Kind: "line"})
					blk := r.Bytes(n)
					for j := 0; j < n; j += 1 + r.Intn(50) {
						blk[j] = "\n\r\x03#:"[r.Intn(5)]
					}
					stream = append(stream, blk...)
					ops = append(ops, vfBufOp{"block", n})
				case 1: // wrapped line for the junk-tolerant reader
					n := 1 + r.Intn(200)
					line := bytes.Repeat([]byte("QUJD"), n)
					pos := 0
					for pos < len(line) {
						step := 1 + r.Intn(80)
						if pos+step > len(line) {
							step = len(line) - pos
						}
						stream = append(stream, line[pos:pos+step]...)
						pos += step
						if pos < len(line) || r.Intn(3) == 0 {
							stream = append(stream, '\r', '\n')
						}
					}
					stream = append(stream, '\n')
					ops = append(ops, vfBufOp{Kind: "junk"})
				case 2: // empty lines / lone CRs
					stream = append(stream, r.PickStr("\n", "\r\n\n", "x\r\r\n\n", "\r\n\r\n\n")...)
					ops = append(ops, vfBufOp{Kind: r.PickStr("line", "junk")})
				case 3: // interrupt inside a line (rare)
					if r.Intn(6) == 0 {
						stream = append(stream, "#SUCC:12\x0334\n"...)
					} else {
						stream = append(stream, "#SUCC:1234\n"...)
					}
					ops = append(ops, vfBufOp{Kind: r.PickStr("line", "junk")})
				default:
					n := r.Intn(3000)
					stream = append(stream, "#NAME:"...)
					stream = append(stream, bytes.Repeat([]byte{'e'}, n)...)
					stream = append(stream, '\n')
					ops = append(ops, vfBufOp{Kind: "line"})
				}
			}
			policy := r.PickStr("one", "32k", "delim", "rand", "rand")
			if policy == "one" && len(stream) > 20000 {
				policy = "rand"
			}
			segs := vfSegment(r, stream, policy)
			vfBufCheckIncremental(c, stream, segs, ops)
			c.Obs("random_stream_bytes", int64(len(stream)))
			c.Obs("random_segments", int64(len(segs)))
			c.Nontrivial(fmt.Sprintf("rnd ops=%d segs=%d policy=%s len=%d", len(ops), len(segs), policy, len(stream)))
			if i < 3 {
				c.Sample(map[string]interface{}{"kind": "random", "ops": fmt.Sprint(ops), "stream_len": len(stream), "segments": len(segs), "policy": policy})
			}
		}})
	}
	vfRunCases(t, "C03", cases, 4, time.Duration(vfPick(120, 900))*time.Second)
}
