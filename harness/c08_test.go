//go:build verif

package trzsz

import (
	"bytes"
	"fmt"
	"os"
	"path/filepath"
	"strconv"
	"testing"
	"time"
)

// vfPatterned returns n compressible bytes with a stamp every 4 KiB, so any two offsets differ in context.
func vfPatterned(n int, salt byte) []byte {
	b := make([]byte, n)
	for i := 0; i+8 <= n; i += 4096 {
		s := fmt.Sprintf("%07x%c", i/4096, 'A'+salt%26)
		copy(b[i:], s)
	}
	return b
}

type vfPair struct {
	Rel    string `json:"relation"`
	SrcLen int    `json:"src_len"`
	DstLen int    `json:"dst_len"` // -1 absent
	Off    int    `json:"diverge_at"`
}

func vfMakePair(p vfPair) (src, dst []byte) {
	src = vfPatterned(p.SrcLen, 1)
	switch p.Rel {
	case "absent":
		return src, nil
	case "empty":
		return src, []byte{}
	case "prefix":
		return src, append([]byte(nil), src[:p.DstLen]...)
	case "identical":
		return src, append([]byte(nil), src...)
	case "longer":
		dst = append(append([]byte(nil), src...), vfPatterned(p.DstLen-p.SrcLen, 7)...)
		return src, dst
	case "diverge":
		n := p.DstLen
		dst = make([]byte, n)
		copy(dst, src)
		if n > len(src) {
			copy(dst[len(src):], vfPatterned(n-len(src), 9))
		}
		if p.Off < n {
			dst[p.Off] ^= 0x5a
		}
		return src, dst
	}
	return src, nil
}

func vfLCP(a, b []byte) int {
	n := vfMin(len(a), len(b))
	for i := 0; i < n; i++ {
		if a[i] != b[i] {
			return i
		}
	}
	return n
}

func TestVF_C08(t *testing.T) {
	const B = kPrefixHashStep
	var pairs []vfPair
	// small scale (one block)
	for _, n := range []int{0, 1, 5000, 300000, 600000} {
		pairs = append(pairs, vfPair{"absent", n, -1, 0}, vfPair{"empty", n, 0, 0}, vfPair{"identical", n, n, 0}, vfPair{"longer", n, n + 1 + n/2, 0})
		if n > 1 {
			pairs = append(pairs, vfPair{"prefix", n, n / 2, 0}, vfPair{"prefix", n, n - 1, 0}, vfPair{"prefix", n, 1, 0})
			for _, o := range []int{0, 1, n / 2, n - 1} {
				pairs = append(pairs, vfPair{"diverge", n, n, o}, vfPair{"diverge", n, n + 10, o}, vfPair{"diverge", n, vfMax(o+1, n-3), o})
			}
		}
	}
	nsmall := len(pairs)
	// real scale: offsets on, just before and just after the 10 MiB comparison-block boundaries
	big := []vfPair{
		{"identical", B, B, 0}, {"identical", 2*B + 5, 2*B + 5, 0}, {"identical", B + 1, B + 1, 0}, {"identical", B - 1, B - 1, 0},
		{"prefix", 2*B + 5, B, 0}, {"prefix", 2*B + 5, B + 1, 0}, {"prefix", 2*B + 5, B - 1, 0}, {"prefix", 3 * B, 2 * B, 0},
		{"longer", B, B + 1, 0}, {"longer", B + 1, 2 * B, 0}, {"longer", 2 * B, 3*B + 5, 0},
		{"diverge", 2*B + 5, 2*B + 5, B - 1}, {"diverge", 2*B + 5, 2*B + 5, B}, {"diverge", 2*B + 5, 2*B + 5, B + 1},
		{"diverge", 2*B + 5, 2*B + 5, 2*B - 1}, {"diverge", 2*B + 5, 2*B + 5, 2 * B}, {"diverge", 2*B + 5, 2*B + 5, 2*B + 1},
		{"diverge", 2*B + 5, 2*B + 5, 2*B + 4}, {"diverge", 2*B + 5, 2*B + 5, 0}, {"diverge", 2*B + 5, 2*B + 5, 1},
		{"diverge", 3 * B, 3 * B, 3*B - 1}, {"diverge", 3 * B, 2 * B, B + 7}, {"diverge", B + 1, 3 * B, B},
		{"empty", 2*B + 5, 0, 0}, {"absent", 2*B + 5, -1, 0},
	}
	var cases []vfCase
	protos := []int{2, 3, 4}
	add := func(idx int, p vfPair, bigCase bool, variant int) {
		cases = append(cases, vfCase{ID: fmt.Sprintf("pair-%d-v%d", idx, variant), Run: func(c *vfCtx) {
			r := c.R
			cfg := vfCfg{Timeout: 60, Overwrite: true, Dir: []string{"up", "down"}[(idx+variant)%2], Protocol: protos[(idx/2+variant)%3],
				Binary: (idx+variant)%3 == 0, Directory: r.Intn(3) == 0, Quiet: r.Intn(2) == 0, Direct: r.Intn(3) == 0, Compress: []int{0, 0, 1, 0, 2}[(idx+variant)%5]}
			if bigCase {
				cfg.Timeout = 120
			}
			src := filepath.Join(c.Dir, "src")
			dst := filepath.Join(c.Dir, "dst")
			os.MkdirAll(src, 0755)
			os.MkdirAll(dst, 0755)
			s, d := vfMakePair(p)
			os.WriteFile(filepath.Join(src, "f.bin"), s, 0644)
			if d != nil {
				os.WriteFile(filepath.Join(dst, "f.bin"), d, 0644)
			}
			os.WriteFile(filepath.Join(dst, "other.txt"), []byte("not part of the transfer"), 0644)
			old := time.Now().Add(-time.Hour)
			os.Chtimes(filepath.Join(dst, "other.txt"), old, old)
			before := vfSnapshot(dst)
			c.Replay(map[string]interface{}{"cfg": cfg, "pair": p})
			sess, so, co, fin := vfRunTransfer(c, cfg, []string{filepath.Join(src, "f.bin")}, dst, 240*time.Second)
			if !fin {
				return
			}
			defer sess.Close()
			if so.Kind != "success" || co.Kind != "success" {
				sig := "c08-transfer-failed:" + p.Rel + ":" + vfErrClass(so.Text+"|"+co.Text)
				if p.SrcLen == 0 && p.DstLen > 0 && cfg.EffProtocol() >= 3 {
					sig = "c08-empty-source-over-nonempty-dest-fails"
				}
				if (vfIsTimeoutText(so.Text) || vfIsTimeoutText(co.Text)) && !(p.SrcLen == 0 && p.DstLen > 0) {
					c.Slow(sig, "overwrite transfer ended in a timeout: server=%q client=%q pair=%+v cfg=%s", vfClip(so.Text), vfClip(co.Text), p, cfg)
				} else {
					c.Viol(sig, "overwrite transfer failed: server=%s/%q client=%s/%q pair=%+v cfg=%s", so.Kind, vfClip(so.Text), co.Kind, vfClip(co.Text), p, cfg)
				}
				return
			}
			got, err := os.ReadFile(filepath.Join(dst, "f.bin"))
			if err != nil {
				c.Viol("c08-dest-missing", "%v", err)
				return
			}
			if !bytes.Equal(got, s) {
				c.Viol("c08-dest-differs:"+p.Rel, "after a successful -y transfer the destination (len %d) differs from the source (len %d) at offset %d; pair=%+v cfg=%s", len(got), len(s), vfLCP(got, s), p, cfg)
				return
			}
			after := vfSnapshot(dst)
			if dd := vfTreeUnchanged(before, after, func(k string) bool { return k == "f.bin" }); dd != "" {
				c.Viol("c08-other-touched", "%s", dd)
				return
			}
			for k := range after {
				if _, ok := before[k]; !ok && k != "f.bin" {
					c.Viol("c08-extra-entry", "unexpected new entry %q", k)
					return
				}
			}
			// conservation: the offset both ends agreed on never exceeds the proven-equal prefix
			senderTaps := []*vfWire{sess.srvW()}
			if cfg.Dir == "up" {
				senderTaps = []*vfWire{sess.cliW(), sess.tunOut}
			}
			remaining := int64(-1)
			dataMsgs := 0
			for _, w := range senderTaps {
				for _, m := range w.Msgs() {
					if m.Type == "SIZE" {
						if v, err := strconv.ParseInt(string(m.Head[6:]), 10, 64); err == nil {
							remaining = v
						}
					}
					if m.Type == "DATA" {
						dataMsgs++
					}
				}
			}
			if remaining < 0 {
				c.Inconc("no SIZE message on the sender's tap")
				return
			}
			agreed := int64(len(s)) - remaining
			lcp := 0
			if d != nil {
				lcp = vfLCP(s, d)
			}
			if agreed < 0 || agreed > int64(lcp) {
				c.Viol("c08-skipped-beyond-proven-prefix", "ends agreed to skip %d bytes but source and previous destination are equal only up to %d; pair=%+v cfg=%s", agreed, lcp, p, cfg)
				return
			}
			if cfg.EffProtocol() < 3 && agreed != 0 {
				c.Viol("c08-protocol2-skipped", "protocol %d must truncate and rewrite, yet %d bytes were skipped", cfg.EffProtocol(), agreed)
				return
			}
			c.Obs("bytes_skipped_by_resume", agreed)
			c.Obs("bytes_compared", int64(len(s)))
			if agreed > 0 {
				c.Obs("cases_with_resume", 1)
			}
			c.Nontrivial(fmt.Sprintf("%s src=%d dst=%d off=%d %s p%d b%v", p.Rel, p.SrcLen, p.DstLen, p.Off, cfg.Dir, cfg.EffProtocol(), cfg.Binary))
			if idx%17 == 0 {
				c.Sample(map[string]interface{}{"pair": p, "cfg": cfg.sig(), "agreed_offset": agreed, "common_prefix": lcp, "data_messages": dataMsgs})
			}
		}})
	}
	for i, p := range pairs {
		// three variants: every small pair meets protocols 2, 3 and 4 (the variants also flip direction and base64/binary)
		add(i, p, false, 0)
		add(i, p, false, 1)
		add(i, p, false, 2)
	}
	nb := vfPick(10, len(big))
	for i := 0; i < nb; i++ {
		p := big[(i*7+vfSeed)%len(big)]
		if vfThorough() {
			p = big[i]
		}
		add(nsmall+i, p, true, 0)
		if vfThorough() {
			add(nsmall+i, p, true, 1)
		}
	}
	vfRunCases(t, "C08", cases, 2, 600*time.Second)
}
