//go:build verif

package trzsz

import (
	"bytes"
	"fmt"
	"strings"
	"testing"
	"time"
)

const vfB64 = "ABCDEFGHIJKLMNOPQRSTUVWXYZabcdefghijklmnopqrstuvwxyz0123456789+/="

func vfPayload(r *vfRand, n int) string {
	var b strings.Builder
	mode := r.Intn(4)
	for i := 0; i < n; i++ {
		switch mode {
		case 0: // runs of one letter (the case the re-print filter can get wrong)
			b.WriteByte("AAAAAAB8"[r.Intn(8)])
		case 1:
			b.WriteByte("0123456789"[r.Intn(10)])
		default:
			b.WriteByte(vfB64[r.Intn(len(vfB64))])
		}
	}
	return b.String()
}

var vfLineTypes = []string{"SUCC", "DATA", "CFG", "ACT", "NAME", "SIZE", "MD5", "EXIT", "NUM", "HASH"}

// ---------------------------------------------------------------- tmux noise

type vfNoiseStats struct{ wraps, junk, status, csi, csiH, pad, reprint, home int }

func vfTmuxStatusPair(r *vfRand) string {
	free := func(n int) string {
		var b strings.Builder
		for i := 0; i < n; i++ {
			const set = "abc 0123;[]?lhq=PX\x07"
			b.WriteByte(set[r.Intn(len(set))])
		}
		return b.String()
	}
	// ESC P = ... ESC \ ... ESC P = ... ESC \   (as captured from tmux)
	return "\x1bP=" + free(r.Intn(6)) + "\x1b\\" + "\x1b[?25l\x1b[?12l\x1b[?25h\x1b[5 q"[:r.PickInt(0, 6, 12, 18, 23)] + "\x1bP=" + free(r.Intn(6)) + "\x1b\\"
}

// vfTmuxDecorate renders "#TYPE:payload\n" with tmux noise. kinds is a bit set: 1 wraps, 2 junk prefix, 4 status pairs.
func vfTmuxDecorate(r *vfRand, line string, kinds int, density int, st *vfNoiseStats) []byte {
	var out []byte
	if kinds&2 != 0 {
		n := 1 + r.Intn(40)
		for i := 0; i < n; i++ {
			const set = "abcXYZ 012:;[]$~>\x1b\x07"
			out = append(out, set[r.Intn(len(set))])
		}
		st.junk++
	}
	marker := strings.IndexByte(line, ':') + 1
	if kinds&2 != 0 && kinds&1 != 0 && marker > 1 && r.Intn(3) == 0 {
		// the junk in front is itself the beginning of a line of the expected type (the pane shows a stale,
		// partly drawn copy before the wrap): the line is cut at the *last* marker
		k := marker + r.Intn(vfMin(6, len(line)-marker)+1)
		out = append(out, line[:k]...)
		out = append(out, '\r', '\n')
		st.junk++
		st.wraps++
	}
	for i := 0; i < len(line); i++ {
		if kinds&1 != 0 && r.Intn(density) == 0 {
			m := 1 + r.Intn(2)
			for k := 0; k < m; k++ {
				out = append(out, '\r', '\n')
				st.wraps++
			}
		}
		if kinds&4 != 0 && i >= marker && r.Intn(density) == 0 {
			out = append(out, vfTmuxStatusPair(r)...)
			st.status++
		}
		out = append(out, line[i])
	}
	if kinds&4 != 0 && r.Intn(3) == 0 {
		out = append(out, vfTmuxStatusPair(r)...)
		st.status++
	}
	if kinds&1 != 0 && r.Intn(3) == 0 {
		out = append(out, '\r', '\n') // a wrap directly before the terminating LF
		st.wraps++
	}
	out = append(out, '\n')
	return out
}

// ---------------------------------------------------------------- Windows console noise

func vfCSI(r *vfRand, allowBang bool) string {
	params := "0123456789;?"
	if allowBang {
		params += "! "
	}
	finals := "ABCDEFGJKLMPSTXZabcdefghilmnpqrstu" // no 'H'
	var b strings.Builder
	b.WriteString("\x1b[")
	n := r.Intn(6)
	for i := 0; i < n; i++ {
		b.WriteByte(params[r.Intn(len(params))])
	}
	b.WriteByte(finals[r.Intn(len(finals))])
	return b.String()
}

func vfCSIH(r *vfRand) string {
	return fmt.Sprintf("\x1b[%d;%dH", 1+r.Intn(60), 1+r.Intn(240))
}

// vfWinDecorate renders the line with Windows-console noise, terminated by '!' (+ optional LF).
// Gap discipline (see DESIGN C16): LF and a digit-parameterised H never occur together between two
// payload letters except as the re-print pattern W3 or the cursor-home pattern W4; the gap after a
// W3/W4 pattern carries no digit-H.
func vfWinDecorate(r *vfRand, line string, kinds int, density int, st *vfNoiseStats) []byte {
	var out []byte
	if kinds&2 != 0 { // letters in front of the marker (cut at the last "#TYPE:")
		n := 1 + r.Intn(20)
		for i := 0; i < n; i++ {
			out = append(out, "abcXYZ012+/="[r.Intn(12)])
		}
		st.junk++
	}
	noDigitH := false // the previous gap ended in W3/W4
	noLF := false     // the previous letter followed a cursor home and a positioned move follows it (W6): no wrap before the next letter
	for i := 0; i < len(line); i++ {
		// gap in front of line[i]
		hasLF, hasDH := false, false
		special := false
		if noLF {
			// after W6 only wrap-free noise: a wrap here would make the next letter overwrite the previous one (that is W4)
			noLF = false
			if kinds&1 != 0 && r.Intn(2) == 0 {
				out = append(out, vfCSI(r, true)...)
				st.csi++
			}
			noDigitH = false
			out = append(out, line[i])
			continue
		}
		if i > 0 && i+1 < len(line) && kinds&16 != 0 && !noDigitH && r.Intn(density*4) == 0 {
			// W6: cursor home, a genuine letter, a positioned move - and no wrap: nothing is re-printed, nothing is dropped
			out = append(out, "\x1b[H"...)
			out = append(out, line[i])
			out = append(out, vfCSIH(r)...)
			st.home++
			noLF = true
			noDigitH = true
			continue
		}
		if i > 0 && kinds&8 != 0 && !noDigitH && r.Intn(density*2) == 0 {
			// W3: the previous letter re-printed after a cursor move
			for k := r.Intn(3); k > 0; k-- {
				out = append(out, " \t\b"[r.Intn(3)])
			}
			out = append(out, '\r', '\n')
			out = append(out, vfCSIH(r)...)
			out = append(out, line[i-1])
			st.reprint++
			special = true
		} else if i > 0 && kinds&8 != 0 && !noDigitH && line[i] != line[i-1] && r.Intn(density*3) == 0 {
			// W5: a wrap and a cursor move without a re-print: the next letter is new (it differs from the previous one)
			out = append(out, '\r', '\n')
			out = append(out, vfCSIH(r)...)
			st.reprint++
			out = append(out, line[i])
			noDigitH = true
			continue
		} else if i > 0 && kinds&16 != 0 && !noDigitH && r.Intn(density*2) == 0 {
			// W4: cursor home + a stray character, then the real text continues after a move
			out = append(out, '\b')
			out = append(out, "\x1b[?25h\x1b[?25l"...)
			out = append(out, "\x1b[H"...)
			out = append(out, vfB64[r.Intn(len(vfB64))])
			out = append(out, vfCSIH(r)...)
			out = append(out, "\x1b[?25h\x1b[?25l\r\n"...)
			st.home++
			special = true
		}
		if special {
			noDigitH = true
			out = append(out, line[i])
			continue
		}
		nitems := 0
		if r.Intn(density) == 0 {
			nitems = 1 + r.Intn(3)
		}
		for k := 0; k < nitems; k++ {
			switch r.Intn(4) {
			case 0:
				if kinds&1 != 0 {
					out = append(out, vfCSI(r, true)...)
					st.csi++
				}
			case 1:
				if kinds&1 != 0 && (!hasLF || i == 0) && !noDigitH { // before the first letter nothing can be a re-print
					out = append(out, vfCSIH(r)...)
					hasDH = true
					st.csiH++
				}
			case 2:
				if kinds&4 != 0 {
					p := " \t\r\b\n"[r.Intn(5)]
					if p == '\n' && hasDH && i > 0 {
						p = ' '
					}
					if p == '\n' {
						hasLF = true
					}
					out = append(out, p)
					st.pad++
				}
			case 3:
				if kinds&1 != 0 {
					out = append(out, []string{"\x1b[01;32m", "\x1b[K", "\x1b[29C", "\x1b[?25l", "\x1b[238X", "\x1b[00m"}[r.Intn(6)]...)
					st.csi++
				}
			}
		}
		noDigitH = false
		out = append(out, line[i])
	}
	// trailing noise in front of the terminator (no LF + digit-H combination: it would arm the filter for nothing, harmless, but keep to the grammar)
	if kinds&1 != 0 && r.Intn(3) == 0 {
		out = append(out, vfCSI(r, true)...)
		st.csi++
	}
	out = append(out, '!')
	if r.Intn(4) != 0 {
		out = append(out, '\n')
	}
	if kinds&4 != 0 && r.Intn(3) == 0 {
		out = append(out, " \b"...)
		out = append(out, "\x1b[?25h"...)
	}
	return out
}

// vfReadNoisy feeds the decorated stream in the given segments and reads the lines back.
func vfReadNoisy(c *vfCtx, win bool, stream []byte, segs [][]byte, lines []string, types []string, interruptAt int, desc string) bool {
	t := newTransfer(vfNewSink(), nil, false, nil)
	if win {
		t.windowsProtocol = true
	} else {
		t.transferConfig.TmuxOutputJunk = true
	}
	feed := func() {
		for _, s := range segs {
			t.addReceivedData(append([]byte(nil), s...), false)
		}
		if win {
			t.addReceivedData([]byte("\x03!\n"), false)
		} else {
			t.addReceivedData([]byte("\x03\n"), false)
		}
	}
	if len(segs) < 9000 {
		feed()
	} else {
		go feed() // the buffer's queue holds 10000 chunks
	}
	for i, want := range lines {
		got, err := t.recvLine(types[i], false, nil)
		if interruptAt == i {
			if err == nil || !strings.Contains(err.Error(), "Interrupted") {
				c.Viol("c16-ctrlc-not-interrupting", "%s: Ctrl-C inside line %d did not interrupt (got %q err %v); stream %q", desc, i, vfHead(got, 80), err, vfHead(stream, 300))
				return false
			}
			c.Obs("interrupts_checked", 1)
			return true
		}
		if err != nil {
			c.Viol("c16-error-"+vfReaderName(win), "%s: line %d: unexpected error %v; want %q; stream %q", desc, i, vfClip(err.Error()), vfHead([]byte(want), 80), vfHead(stream, 300))
			return false
		}
		if string(got) != want {
			c.Viol("c16-line-differs-"+vfReaderName(win), "%s: line %d: got %q want %q; stream %q (segments %d)", desc, i, vfHead(got, 200), vfHead([]byte(want), 200), vfHead(stream, 400), len(segs))
			return false
		}
		c.Obs("lines_recovered", 1)
	}
	return true
}

func vfReaderName(win bool) string {
	if win {
		return "windows"
	}
	return "tmux"
}

func TestVF_C16(t *testing.T) {
	var cases []vfCase
	// exhaustive single-item insertion on short payloads, all chunkings of small streams
	for _, win := range []bool{false, true} {
		win := win
		for pi := 0; pi < vfPick(6, 24); pi++ {
			pi := pi
			cases = append(cases, vfCase{ID: fmt.Sprintf("ins-%s-%d", vfReaderName(win), pi), Run: func(c *vfCtx) {
				r := c.R
				typ := vfLineTypes[pi%len(vfLineTypes)]
				payload := vfPayload(r, 1+pi%9)
				if pi%3 == 0 {
					payload = strings.Repeat("8", 1+pi%5) + payload
				}
				line := "#" + typ + ":" + payload
				var items []string
				if win {
					items = []string{"\x1b[01;32m", "\x1b[K", "\x1b[25;119H", " ", "\t", "\r", "\n", "\b", "\r\n", "\x1b[!p", "\x1b[?25l"}
				} else {
					items = []string{"\r\n", "\r\n\r\n", vfTmuxStatusPair(r)}
				}
				n := int64(0)
				for _, it := range items {
					for pos := 0; pos <= len(line); pos++ {
						if !win && strings.HasPrefix(it, "\x1bP=") && pos < len(typ)+2 {
							continue // status pairs are specified after the marker
						}
						var stream []byte
						stream = append(stream, line[:pos]...)
						stream = append(stream, it...)
						stream = append(stream, line[pos:]...)
						if win {
							stream = append(stream, "!\n"...)
						} else {
							stream = append(stream, '\n')
						}
						// every two-way cut, plus one-byte reads
						for cut := 0; cut <= len(stream); cut++ {
							var segs [][]byte
							if cut == 0 {
								segs = vfSegment(r, stream, "one")
							} else if cut == len(stream) {
								segs = [][]byte{stream}
							} else {
								segs = [][]byte{stream[:cut], stream[cut:]}
							}
							n++
							if !vfReadNoisy(c, win, stream, segs, []string{line}, []string{typ}, -1, fmt.Sprintf("single item %q at %d cut %d", it, pos, cut)) {
								return
							}
						}
					}
				}
				c.Obs("single_item_insertions", n)
				c.Nontrivial(fmt.Sprintf("ins %s type=%s len=%d", vfReaderName(win), typ, len(line)))
				c.Sample(map[string]interface{}{"reader": vfReaderName(win), "line": line, "items": len(items), "placements_x_cuts": n})
			}})
		}
	}
	// random multiplicities
	n := vfPick(6000, 150000)
	for i := 0; i < n; i++ {
		i := i
		cases = append(cases, vfCase{ID: fmt.Sprintf("rnd-%d", i), Run: func(c *vfCtx) {
			r := c.R
			win := i%2 == 1
			nlines := 1 + r.Intn(4)
			var stream []byte
			var lines, types []string
			st := &vfNoiseStats{}
			kinds := 0
			interruptAt := -1
			if r.Intn(8) == 0 {
				interruptAt = r.Intn(nlines)
			}
			for l := 0; l < nlines; l++ {
				typ := vfLineTypes[r.Intn(len(vfLineTypes))]
				plen := r.PickInt(1, 2, 5, 24, 100, 700, 2000)
				line := "#" + typ + ":" + vfPayload(r, plen)
				k := 1 + r.Intn(31)
				kinds |= k
				density := r.PickInt(2, 5, 20, 100)
				var dec []byte
				if win {
					dec = vfWinDecorate(r, line, k, density, st)
				} else {
					dec = vfTmuxDecorate(r, line, k&7, density, st)
				}
				if interruptAt == l {
					// Ctrl-C anywhere in the incoming line (before its terminator)
					end := len(dec) - 1
					if win {
						end = bytes.LastIndexByte(dec, '!')
					}
					pos := r.Intn(end + 1)
					dec = append(append(append([]byte(nil), dec[:pos]...), 0x03), dec[pos:]...)
				}
				stream = append(stream, dec...)
				lines = append(lines, line)
				types = append(types, typ)
				if interruptAt == l {
					break
				}
			}
			policy := r.PickStr("one", "delim", "rand", "rand", "32k")
			if policy == "one" && len(stream) > 6000 {
				policy = "rand"
			}
			segs := vfSegment(r, stream, policy)
			if !vfReadNoisy(c, win, stream, segs, lines, types, interruptAt, fmt.Sprintf("random kinds=%d policy=%s", kinds, policy)) {
				c.Replay(map[string]interface{}{"stream": string(stream), "lines": lines, "win": win, "policy": policy})
				return
			}
			c.Obs("noise_wraps", int64(st.wraps))
			c.Obs("noise_junk_prefixes", int64(st.junk))
			c.Obs("noise_status_pairs", int64(st.status))
			c.Obs("noise_csi", int64(st.csi))
			c.Obs("noise_csi_H", int64(st.csiH))
			c.Obs("noise_padding", int64(st.pad))
			c.Obs("noise_reprint", int64(st.reprint))
			c.Obs("noise_cursor_home", int64(st.home))
			if st.wraps+st.junk+st.status+st.csi+st.csiH+st.pad+st.reprint+st.home > 0 || interruptAt >= 0 {
				c.Nontrivial(fmt.Sprintf("%s lines=%d kinds=%d segs=%d policy=%s int=%d len=%d", vfReaderName(win), nlines, kinds, len(segs), policy, interruptAt, len(stream)))
			}
			if i < 4 {
				c.Sample(map[string]interface{}{"reader": vfReaderName(win), "stream_head": string(vfHead(stream, 160)), "lines": len(lines), "segments": len(segs)})
			}
		}})
	}
	vfRunCases(t, "C16", cases, 4, 60*time.Second)
}
