//go:build verif

package trzsz

import (
	"bytes"
	"fmt"
	"os"
	"path/filepath"
	"regexp"
	"runtime"
	"strconv"
	"strings"
	"sync/atomic"
	"testing"
	"time"

	"github.com/mattn/go-runewidth"
)

// virtual clock for the progress bar (one per child process)
var vfClockNanos atomic.Int64

func vfInstallClock() {
	vfClockNanos.Store(time.Date(2024, 1, 1, 0, 0, 0, 0, time.UTC).UnixNano())
	timeNowFunc = func() time.Time { return time.Unix(0, vfClockNanos.Load()) }
}

type vfLineRec struct{ lines []string }

func (w *vfLineRec) Write(p []byte) (int, error) {
	w.lines = append(w.lines, string(p))
	return len(p), nil
}

var (
	vfCSIZero  = regexp.MustCompile(`\x1b\[[0-9;?]*[A-Za-z]`)
	vfPctTail  = regexp.MustCompile(`(-?[0-9]+|NaN|[+-]Inf)%(?: \| [^|]*){0,3}$`)
	vfOctalEsc = regexp.MustCompile(`\\([0-7]{3})`)
)

// vfVisible removes what is zero-width by construction and returns the visible text.
func vfVisible(s string, tmuxPrefix string) (string, bool) {
	if tmuxPrefix != "" {
		if !strings.HasPrefix(s, tmuxPrefix) || !strings.HasSuffix(s, "\r\n") {
			return s, false
		}
		body := s[len(tmuxPrefix) : len(s)-2]
		body = vfOctalEsc.ReplaceAllStringFunc(body, func(m string) string {
			v, _ := strconv.ParseUint(m[1:], 8, 8)
			return string([]byte{byte(v)})
		})
		s = body
	}
	s = vfCSIZero.ReplaceAllString(s, "")
	s = strings.ReplaceAll(s, "\r", "")
	return s, true
}

type vfBarCase struct {
	Width    int32  `json:"width"`
	Pane     int32  `json:"pane"`
	Prefix   string `json:"prefix,omitempty"`
	Color    string `json:"color,omitempty"`
	Name     string `json:"name"`
	Count    int64  `json:"count"`
	AllFiles bool   `json:"walk_through_all_files,omitempty"`
	Size     int64  `json:"size"`
	History  string `json:"history"`
	HostileS bool   `json:"hostile_steps,omitempty"`
}

var vfNamesByClass = map[string][]string{
	"ascii":     {"a", "file.bin", strings.Repeat("n", 19), strings.Repeat("n", 20), strings.Repeat("n", 21), strings.Repeat("long", 12) + ".txt", strings.Repeat("x", 300)},
	"cjk":       {"中", "中文文件名.dat", strings.Repeat("漢", 9), strings.Repeat("漢", 10), strings.Repeat("漢", 11), strings.Repeat("字", 60)},
	"emoji":     {"😀", "👨‍👩‍👧‍👦 family.png", strings.Repeat("🎉", 15), "a😀b😀c😀d😀e😀f😀g😀h😀i😀j😀k😀", strings.Repeat("⭐", 40), "report ✅ final ⚡ version ⌚ of the quarterly numbers ✅⚡⌚⭐.xlsx", strings.Repeat("ᄀ", 30) + ".txt"},
	"combining": {"é", strings.Repeat("é", 30), "à́̂̃", strings.Repeat("ก็", 25)},
	"control":   {"a\x01b", "tab\there", "bell\x07", "c1\u0085x", strings.Repeat("\x02", 40)},
	"invalid":   {"bad\xff\xfeutf8", string([]byte{0xc3, 0x28}), strings.Repeat("\xe2\x82", 20)},
	"mixed":     {"報告 report 2024 (final) 😀.pdf", "  spaces  ", "-dash", ""},
}

func vfNameClasses() []string {
	return []string{"ascii", "cjk", "emoji", "combining", "control", "invalid", "mixed"}
}

// vfRunBar drives one bar through a call history; checks every rendered line.
func vfRunBar(c *vfCtx, bc vfBarCase, r *vfRand) (renders int64) {
	rec := &vfLineRec{}
	var calls []string
	call := func(desc string, f func()) bool {
		calls = append(calls, desc)
		if len(calls) > 60 {
			calls = calls[len(calls)-60:]
		}
		ok := true
		func() {
			defer func() {
				if e := recover(); e != nil {
					buf := make([]byte, 4096)
					n := runtime.Stack(buf, false)
					c.Viol("c20-panic:"+vfPanicSig(string(buf[:n]))+":"+vfErrClass(fmt.Sprint(e)), "rendering panicked: %v; case %+v; last calls %v", e, bc, calls)
					ok = false
				}
			}()
			f()
		}()
		return ok
	}
	bar := newTextProgressBar(rec, bc.Width, bc.Pane, bc.Prefix, bc.Color)
	eff := bc.Width
	if bc.Pane > 1 {
		eff = bc.Pane - 1
	}
	lastPct := -1.0
	check := func() bool {
		for _, l := range rec.lines {
			vis, ok := vfVisible(l, bc.Prefix)
			if !ok {
				c.Viol("c20-tmux-wrapper", "line is not wrapped in the tmux prefix form: %q", l)
				return false
			}
			if vis == "" {
				continue
			}
			renders++
			w := runewidth.StringWidth(vis)
			if eff >= 5 && w > int(eff) {
				c.Viol("c20-too-wide", "rendered width %d exceeds %d columns: %q; case %+v; last calls %v", w, eff, vis, bc, calls)
				return false
			}
			if strings.ContainsAny(bc.Name, "%|") {
				continue
			}
			m := vfPctTail.FindStringSubmatch(vis)
			if m == nil {
				c.Viol("c20-no-percentage", "no percentage field in %q; case %+v", vis, bc)
				return false
			}
			pct, err := strconv.ParseFloat(m[1], 64)
			if err != nil || pct < 0 || pct > 100 || m[1] == "-0" {
				c.Viol("c20-percent-out-of-range", "percentage %q outside 0..100 in %q; case %+v; last calls %v", m[1], vis, bc, calls)
				return false
			}
			if pct < lastPct {
				c.Viol("c20-percent-decreased", "percentage went from %v to %v within one file: %q; case %+v; last calls %v", lastPct, pct, vis, bc, calls)
				return false
			}
			lastPct = pct
		}
		rec.lines = rec.lines[:0]
		return true
	}
	tick := func() {
		// virtual time: mostly above the 200 ms redraw threshold, sometimes tiny or huge
		var d int64
		switch r.Intn(8) {
		case 0:
			d = 1
		case 1:
			d = int64(50 * time.Millisecond)
		case 2:
			d = int64(time.Hour) * int64(1+r.Intn(100000))
		default:
			d = int64(201*time.Millisecond) + int64(r.Intn(int(2*time.Second)))
		}
		vfClockNanos.Add(d)
	}
	paused, pauseLeft := false, 0
	nfiles := 1
	if bc.Count > 1 {
		nfiles = 2
	}
	if bc.AllFiles && bc.Count <= 200 {
		nfiles = int(bc.Count) // the "(i/n)" counter grows by a digit at file 10 and at file 100
	}
	if !call(fmt.Sprintf("onNum(%d)", bc.Count), func() { bar.onNum(bc.Count) }) || !check() {
		return
	}
	for f := 0; f < nfiles; f++ {
		lastPct = -1
		if !call("onName", func() { bar.onName(bc.Name) }) {
			return
		}
		size := bc.Size
		switch bc.History {
		case "resume":
			// onSize(full) -> hash steps -> setPreSize(m) -> onSize(full-m) -> data steps
			m := int64(0)
			if size > 0 {
				m = int64(r.Intn(int(vfMinI64(size, 1<<30)) + 1))
			}
			if !call(fmt.Sprintf("onSize(%d)", size), func() { bar.onSize(size) }) {
				return
			}
			for h := int64(0); h < 3; h++ {
				s := m * (h + 1) / 3
				tick()
				if !call(fmt.Sprintf("onStep(%d)", s), func() { bar.onStep(s) }) || !check() {
					return
				}
			}
			if !call(fmt.Sprintf("setPreSize(%d)", m), func() { bar.setPreSize(m) }) {
				return
			}
			if !call(fmt.Sprintf("onSize(%d)", size-m), func() { bar.onSize(size - m) }) {
				return
			}
			size -= m
		default:
			if !call(fmt.Sprintf("onSize(%d)", size), func() { bar.onSize(size) }) {
				return
			}
		}
		nsteps := 6 + r.Intn(30)
		if f >= 2 {
			nsteps = 1 + r.Intn(3)
		}
		cur := int64(0)
		for k := 0; k < nsteps; k++ {
			var s int64
			switch bc.History {
			case "monotone", "resume":
				if size > 0 {
					cur += int64(r.U64() % uint64(size/int64(nsteps)+1))
					if k == nsteps-1 || cur > size {
						cur = size
					}
				}
				s = cur
			case "repeat":
				if r.Intn(3) != 0 && size > 0 {
					cur += int64(r.U64() % uint64(size/int64(nsteps)+1))
				}
				if cur > size {
					cur = size
				}
				s = cur
			case "regress":
				if size > 0 {
					s = int64(r.U64() % uint64(size+1))
				}
			case "hostile":
				s = []int64{size + 1, size * 2, -1, -size, 1 << 31, 1 << 40, 1<<62 + 5, 1<<63 - 1, size, 0, 101}[r.Intn(11)]
			}
			if r.Intn(10) == 0 {
				w := bc.Width
				if r.Intn(2) == 0 {
					w = int32(5 + r.Intn(300))
				}
				if !call(fmt.Sprintf("setTerminalColumns(%d)", w), func() { bar.setTerminalColumns(w) }) {
					return
				}
				eff = w
			}
			// the stop prompt opens now and then: steps keep arriving while it is open (nothing is drawn), then it closes
			if r.Intn(9) == 0 && !paused {
				paused = true
				pauseLeft = 1 + r.Intn(3)
				if !call("setPause(true)", func() { bar.setPause(true) }) {
					return
				}
			}
			tick()
			if !call(fmt.Sprintf("onStep(%d)", s), func() { bar.onStep(s) }) || !check() {
				return
			}
			if paused {
				pauseLeft--
				if pauseLeft <= 0 {
					paused = false
					if !call("setPause(false)", func() { bar.setPause(false) }) || !check() {
						return
					}
				}
			}
		}
		if paused {
			paused = false
			if !call("setPause(false)", func() { bar.setPause(false) }) || !check() {
				return
			}
		}
		tick()
		if !call("onDone", func() { bar.onDone() }) || !check() {
			return
		}
	}
	call("showCursor", func() { bar.showCursor() })
	check()
	return
}

func vfMinI64(a, b int64) int64 {
	if a < b {
		return a
	}
	return b
}

// vfFilterBarCase: the progress line of a real transfer through a real filter must fit the width last
// reported through SetTerminalColumns, also for the next transfer and after a stop prompt was dismissed.
func vfFilterBarCase(c *vfCtx, variant int) {
	rig := vfNewFilterRig(c, TrzszOptions{})
	defer rig.Close()
	f := rig.filter
	f.SetTerminalColumns(120)
	src := filepath.Join(c.Dir, "src")
	dst := filepath.Join(c.Dir, "dst")
	os.MkdirAll(src, 0755)
	os.MkdirAll(dst, 0755)
	os.WriteFile(filepath.Join(src, "a-file-with-a-fairly-long-name-for-the-left-column.bin"), vfNewRand(c.ID, "a").Bytes(10<<20), 0644)
	f.SetDefaultDownloadPath(dst)
	narrow := int32([]int{60, 40, 25, 80}[variant%4])
	run := func(n int, during func()) bool {
		st := newTransfer(rig.serverOut, nil, false, nil)
		rig.attach(func(p []byte) { st.addReceivedData(p, false) })
		done := make(chan error, 1)
		go func() {
			files, err := checkPathsReadable([]string{filepath.Join(src, "a-file-with-a-fairly-long-name-for-the-left-column.bin")}, false)
			if err == nil {
				args := &tszArgs{baseArgs: baseArgs{Overwrite: true, Bufsize: bufferSize{4096}, Timeout: 30}}
				err = sendFiles(st, files, args, noTmuxMode, -1)
			}
			if err != nil {
				st.serverError(err)
			}
			st.cleanup()
			done <- err
		}()
		rig.serverOut.WriteAtomic([]byte(rig.trigger("S", kTrzszVersion)))
		if during != nil {
			deadline := time.Now().Add(10 * time.Second)
			for !f.IsTransferringFiles() && time.Now().Before(deadline) {
				time.Sleep(time.Millisecond)
			}
			time.Sleep(400 * time.Millisecond) // a couple of progress lines at the old width
			during()
		}
		select {
		case err := <-done:
			if err != nil {
				c.Inconc("transfer %d failed: %v", n, vfClip(err.Error()))
				return false
			}
		case <-time.After(120 * time.Second):
			c.Slow("c20-filter-transfer-timeout", "transfer %d did not finish", n)
			return false
		}
		rig.waitIdle(20 * time.Second)
		rig.attach(nil)
		return true
	}
	mark := 0
	if !run(1, func() {
		f.SetTerminalColumns(narrow)       // the user narrows the terminal mid-transfer
		time.Sleep(250 * time.Millisecond) // a line laid out before the resize may still be on its way
		mark = rig.clientOut.Len()
		if variant%2 == 1 {
			// Ctrl-C, then "continue": the bar is handed the filter's width again
			rig.clientIn.WriteAtomic([]byte{0x03})
			time.Sleep(300 * time.Millisecond)
			rig.clientIn.WriteAtomic([]byte("q"))
		}
	}) {
		return
	}
	if !run(2, nil) {
		return
	}
	out := rig.clientOut.Bytes()[mark:]
	lines := 0
	for _, seg := range bytes.Split(out, []byte("\r")) {
		// a progress line ends where the cursor is shown again or the next trigger is echoed
		for _, end := range []string{"\x1b[?25h", "\x1b7", "\n"} {
			if i := bytes.Index(seg, []byte(end)); i >= 0 {
				seg = seg[:i]
			}
		}
		vis, _ := vfVisible(string(seg), "")
		vis = strings.TrimRight(vis, "\n")
		if !vfPctTail.MatchString(vis) {
			continue // not a progress line (prompt text, trigger echo, messages)
		}
		lines++
		if w := runewidth.StringWidth(vis); w > int(narrow) {
			c.Viol("c20-filter-line-too-wide", "the terminal was narrowed to %d columns during the first transfer, yet a later progress line is %d wide: %q", narrow, w, vis)
			return
		}
	}
	c.Obs("filter_progress_lines_checked", int64(lines))
	if lines > 0 {
		c.Nontrivial(fmt.Sprintf("filter-bar narrow=%d variant=%d", narrow, variant))
		c.Sample(map[string]interface{}{"kind": "real filter, resize during a transfer", "narrowed_to": narrow, "ctrl_c_continue": variant%2 == 1, "progress_lines_after_resize": lines})
	} else {
		c.Inconc("no progress line was rendered after the resize")
	}
}

func TestVF_C20(t *testing.T) {
	if os.Getenv("VF_FILTERBAR") != "" {
		var cases []vfCase
		for v := 0; v < vfPick(8, 48); v++ {
			v := v
			cases = append(cases, vfCase{ID: fmt.Sprintf("filterbar-%d", v), Run: func(c *vfCtx) { vfFilterBarCase(c, v) }})
		}
		vfRunCases(t, "C20", cases, 2, 300*time.Second)
		return
	}
	vfInstallClock()
	var cases []vfCase
	// battery x all widths (exhaustive over widths 1..500)
	type tup struct {
		class string
		idx   int
		count int64
		size  int64
		hist  string
	}
	var battery []tup
	hists := []string{"monotone", "repeat", "regress", "resume"}
	sizes := []int64{0, 1, 99, 1 << 31, 1 << 62}
	counts := []int64{1, 2, 10, 1000000, 12, 101}
	k := 0
	for _, cl := range vfNameClasses() {
		for i := range vfNamesByClass[cl] {
			battery = append(battery, tup{cl, i, counts[k%len(counts)], sizes[k%len(sizes)], hists[k%len(hists)]})
			k++
		}
	}
	for _, tp := range battery {
		tp := tp
		cases = append(cases, vfCase{ID: fmt.Sprintf("widths-%s-%d", tp.class, tp.idx), Run: func(c *vfCtx) {
			var renders int64
			for w := int32(1); w <= 500; w++ {
				bc := vfBarCase{Width: w, Name: vfNamesByClass[tp.class][tp.idx], Count: tp.count, Size: tp.size, History: tp.hist}
				switch w % 4 {
				case 1:
					bc.Pane = w + 1 // pane-relative redraw, effective width = pane-1
				case 2:
					bc.Pane, bc.Prefix = w+1, "%output %1 "
				}
				if w%50 == 7 {
					bc.Color = "00ffff ff00ff"
				}
				bc.AllFiles = tp.count >= 10 && (tp.count <= 12 && w%10 == 3 || w%100 == 53)
				renders += vfRunBar(c, bc, vfNewRand(c.ID, w))
				if c.Failed() {
					c.Replay(bc)
					return
				}
			}
			c.Obs("renderings", renders)
			c.Obs("widths_exhaustive_batteries", 1)
			c.Nontrivial(fmt.Sprintf("%s/%d count=%d size=%d %s widths 1..500", tp.class, tp.idx, tp.count, tp.size, tp.hist))
			c.Sample(map[string]interface{}{"name_class": tp.class, "name": vfNamesByClass[tp.class][tp.idx], "count": tp.count, "size": tp.size, "history": tp.hist, "widths": "1..500", "renderings": renders})
		}})
	}
	// PRNG cases, including hostile step values (beyond the size, negative, 2^63-1)
	n := vfPick(3000, 60000)
	for i := 0; i < n; i++ {
		i := i
		cases = append(cases, vfCase{ID: fmt.Sprintf("rnd-%d", i), Run: func(c *vfCtx) {
			r := c.R
			cl := vfNameClasses()[r.Intn(7)]
			names := vfNamesByClass[cl]
			bc := vfBarCase{Width: int32(1 + r.Intn(500)), Name: names[r.Intn(len(names))], Count: counts[r.Intn(len(counts))], AllFiles: r.Intn(3) == 0,
				Size:    []int64{0, 1, 2, 99, 100, 4096, 1 << 20, 1 << 31, 1<<31 + 7, 1 << 40, 1 << 62}[r.Intn(11)],
				History: []string{"monotone", "repeat", "regress", "resume", "hostile", "hostile"}[r.Intn(6)]}
			switch r.Intn(4) {
			case 1:
				bc.Pane = bc.Width + 1
			case 2:
				bc.Pane, bc.Prefix = bc.Width+1, "%output %1 "
			}
			if r.Intn(20) == 0 {
				bc.Color = "00ffff ff00ff"
			}
			c.Replay(bc)
			renders := vfRunBar(c, bc, r)
			c.Obs("renderings", renders)
			if bc.History == "hostile" {
				c.Obs("hostile_histories", 1)
			}
			if renders > 0 {
				c.Nontrivial(fmt.Sprintf("w=%d pane=%d pre=%v %s cnt=%d size=%d %s", bc.Width, bc.Pane, bc.Prefix != "", cl, bc.Count, bc.Size, bc.History))
			}
			if i < 3 {
				c.Sample(bc)
			}
		}})
	}
	vfRunCases(t, "C20", cases, 1, 60*time.Second)
}
