//go:build verif

package trzsz

import (
	"bytes"
	"fmt"
	"os"
	"path/filepath"
	"strings"
	"testing"
	"time"
)

const (
	vfZmDownloadInit = "rz waiting to receive.**\x18B00000000000000\r\x8a\x11"
	vfZmUploadInit   = "**\x18B0100000023be50\r\x8a\x11"
	vfZmFinish       = "**\x18B0800000000022d\r\x8a"
)

type vfZmPlan struct {
	Upload bool   `json:"upload"`
	Helper string `json:"helper"`    // exit0, exit3, finish, never, late-write, missing, chooser-cancel
	Server string `json:"server"`    // finish, cancel-before, cancel-after, keeps-sending, quiet, header-with-cancel, header-with-cannot-open
	CtrlC  int    `json:"ctrl_c_ms"` // 0 = none
}

var vfZmHelperScripts = map[string]string{
	"exit0":      "sleep 60\nexit 0\n",
	"exit3":      "sleep 60\nexit 3\n",
	"exit-now":   "exit 0\n",
	"finish":     "sleep 250\necho-finish\nsleep 150\nexit 0\n",
	"never":      "sleep 40000\n",
	"late-write": "sleep 900\nwrite 2a2a184230383030\nsleep 100\nexit 0\n",
}

func TestVF_C19(t *testing.T) {
	writeToClipboard = func(buf []byte) {}
	noZm := os.Getenv("VF_PATH_NOZM") != ""
	if noZm {
		os.Setenv("PATH", strings.Replace(os.Getenv("PATH"), os.Getenv("VF_FAKEBIN")+":", os.Getenv("VF_FAKEBIN")+"-nozm:", 1))
	}
	if os.Getenv("VF_CHOOSERSLOW") != "" {
		// family chooser: the file chooser stays open for 1.5 s; what the remote side or the user does meanwhile must be
		// honoured when it closes (one case at a time: the fake chooser is configured through the environment)
		dir := filepath.Join(os.Getenv("VF_OUT"), "chooser-pick")
		os.MkdirAll(dir, 0755)
		pick := filepath.Join(dir, "picked.bin")
		os.WriteFile(pick, []byte("payload"), 0644)
		os.Setenv("VF_ZENITY", "slowpath:1500:"+pick)
		var cases []vfCase
		for _, sv := range []string{"cancel-after", "cancel-before", "quiet", "finish-late", "cancel-after", "quiet"} {
			for _, cc := range []int{0, 700} {
				plan := vfZmPlan{Upload: true, Helper: "chooser-slow", Server: sv, CtrlC: cc}
				id := fmt.Sprintf("zm-up-chooser-slow-%s-c%d-%d", sv, cc, len(cases))
				cases = append(cases, vfCase{ID: id, Run: func(c *vfCtx) {
					os.Remove(filepath.Join(dir, ".vf_zm_log"))
					os.Remove(filepath.Join(dir, ".vf_zm_stdin"))
					vfZmodemCase(c, plan)
				}})
			}
		}
		vfRunCases(t, "C19", cases, 1, 240*time.Second)
		return
	}
	var cases []vfCase
	helpers := []string{"exit0", "exit3", "exit-now", "finish", "never", "late-write", "chooser-cancel"}
	servers := []string{"finish", "cancel-before", "cancel-before-short", "cancel-before-split", "cancel-after", "keeps-sending", "quiet"}
	if noZm {
		helpers = []string{"missing"}
	}
	for _, up := range []bool{false, true} {
		for _, h := range helpers {
			for _, sv := range servers {
				for _, cc := range []int{0, 150, 700} {
					if h == "never" && cc == 0 && !strings.HasPrefix(sv, "cancel-before") && !vfThorough() {
						continue // needs the 20 s inactivity timers
					}
					if h == "chooser-cancel" && !up {
						continue
					}
					for rep := 0; rep < vfPick(1, 4); rep++ {
						plan := vfZmPlan{Upload: up, Helper: h, Server: sv, CtrlC: cc}
						id := fmt.Sprintf("zm-%v-%s-%s-c%d-%d", map[bool]string{true: "up", false: "down"}[up], h, sv, cc, rep)
						cases = append(cases, vfCase{ID: id, Run: func(c *vfCtx) { vfZmodemCase(c, plan) }})
					}
				}
			}
		}
		if !noZm {
			for _, sv := range []string{"header-with-cancel", "header-with-cannot-open"} {
				plan := vfZmPlan{Upload: up, Helper: "exit0", Server: sv}
				cases = append(cases, vfCase{ID: fmt.Sprintf("zm-%v-nostart-%s", up, sv), Run: func(c *vfCtx) { vfZmodemCase(c, plan) }})
			}
		}
	}
	vfRunCases(t, "C19", cases, 8, 240*time.Second)
}

func vfZmodemCase(c *vfCtx, plan vfZmPlan) {
	work := c.Dir
	rig := vfNewFilterRig(c, TrzszOptions{EnableZmodem: true})
	defer rig.Close()
	f := rig.filter
	helperDir := filepath.Join(work, "dl")
	os.MkdirAll(helperDir, 0755)
	script := vfZmHelperScripts[plan.Helper]
	if plan.Upload {
		up := filepath.Join(work, "up")
		os.MkdirAll(up, 0755)
		os.WriteFile(filepath.Join(up, "file.bin"), []byte("payload"), 0644)
		helperDir = up
		if plan.Helper == "chooser-slow" {
			helperDir = filepath.Join(os.Getenv("VF_OUT"), "chooser-pick")
			script = vfZmHelperScripts["exit0"]
		} else if plan.Helper != "chooser-cancel" {
			if _, err := f.OneTimeUpload([]string{filepath.Join(up, "file.bin")}); err != nil {
				c.Inconc("OneTimeUpload: %v", err)
				return
			}
		}
	} else {
		f.SetDefaultDownloadPath(helperDir)
	}
	if plan.Helper != "chooser-slow" {
		os.Unsetenv("VF_ZENITY") // chooser-cancel: the fake chooser answers "cancelled"
	}
	os.WriteFile(filepath.Join(helperDir, ".vf_zm_script"), []byte(script), 0644)
	c.Replay(plan)
	init := vfZmDownloadInit
	if plan.Upload {
		init = vfZmUploadInit
	}
	cancelSeq := string(zmodemCancelFullSequence)
	o0 := rig.clientOut.Len()
	i0 := rig.siSink.Len()
	// --- reads that must not start a session
	if plan.Server == "header-with-cancel" || plan.Server == "header-with-cannot-open" {
		chunk := init + cancelSeq
		if plan.Server == "header-with-cannot-open" {
			chunk = "sz: cannot open /nonexistent: No such file or directory\r\n" + init
		}
		rig.serverOut.WriteAtomic([]byte(chunk))
		time.Sleep(400 * time.Millisecond)
		if f.zmodem.Load() != nil {
			c.Viol("c19-started-despite-veto", "a read carrying %s alongside the start header started a zmodem session", plan.Server)
			return
		}
		if _, err := os.Stat(filepath.Join(helperDir, ".vf_zm_log")); err == nil {
			c.Viol("c19-helper-started-despite-veto", "the local helper was started for a read carrying %s", plan.Server)
			return
		}
		if !rig.probe("no-session", [][]byte{[]byte("after veto\r\n")}, [][]byte{[]byte("ls\r")}) {
			return
		}
		if got := rig.clientOut.Bytes()[o0:]; !bytes.HasPrefix(got, []byte(chunk)) {
			c.Viol("c19-veto-read-altered", "the vetoed read did not pass through unchanged: %q", vfHead(got, 80))
			return
		}
		c.Obs("vetoed_reads", 1)
		c.Nontrivial("nostart " + plan.Server)
		return
	}
	// --- a session
	t0 := time.Now()
	rig.serverOut.WriteAtomic([]byte(init))
	lastServerWrite := time.Now()
	for dl := time.Now().Add(5 * time.Second); f.zmodem.Load() == nil && time.Now().Before(dl); {
		time.Sleep(time.Millisecond) // the output pump has seen the header
	}
	if f.zmodem.Load() == nil {
		c.Viol("c19-session-not-started", "plan %+v: a start header alone in a read did not start a zmodem session", plan)
		return
	}
	sw := func(b string) {
		rig.serverOut.WriteAtomic([]byte(b))
		lastServerWrite = time.Now()
	}
	ctrlcAt := time.Time{}
	events := []struct {
		at time.Duration
		f  func()
	}{}
	add := func(ms int, fn func()) {
		events = append(events, struct {
			at time.Duration
			f  func()
		}{time.Duration(ms) * time.Millisecond, fn})
	}
	switch plan.Server {
	case "finish":
		add(350, func() { sw("\x18data-from-server-1") })
		add(450, func() { sw(vfZmFinish) })
	case "cancel-before":
		add(40, func() { sw(cancelSeq) })
	case "cancel-before-short": // a cancel as other implementations send it: eight CAN and eight BS
		add(40, func() { sw(strings.Repeat("\x18", 8) + strings.Repeat("\x08", 8)) })
	case "cancel-before-split": // the full sequence cut by the transport
		add(40, func() { sw(cancelSeq[:10]) })
		add(45, func() { sw(cancelSeq[10:]) })
	case "cancel-after":
		add(450, func() { sw(cancelSeq) })
	case "finish-late": // (chooser family) the remote side finishes only after the dialog has closed
		add(2200, func() { sw("\x18data-from-server-1") })
		add(2400, func() { sw(vfZmFinish) })
	case "keeps-sending":
		for ms := 200; ms <= 1500; ms += 100 {
			add(ms, func() { sw("\x18more-data") })
		}
	case "quiet":
	}
	if plan.CtrlC > 0 {
		add(plan.CtrlC, func() { rig.clientIn.WriteAtomic([]byte{0x03}); ctrlcAt = time.Now() })
	}
	// run the events in time order
	for len(events) > 0 {
		mi := 0
		for i := range events {
			if events[i].at < events[mi].at {
				mi = i
			}
		}
		ev := events[mi]
		events = append(events[:mi], events[mi+1:]...)
		if d := ev.at - time.Since(t0); d > 0 {
			time.Sleep(d)
		}
		ev.f()
	}
	// wait for the session-ending event: the helper exited / could not be started / the user cancelled / Ctrl-C
	ended := func() bool {
		z := f.zmodem.Load()
		return z == nil || z.stopped.Load()
	}
	limit := 6 * time.Second
	if plan.Helper == "never" && plan.CtrlC == 0 && !strings.HasPrefix(plan.Server, "cancel-before") {
		limit = 26 * time.Second // the 20 s inactivity timers
	}
	deadline := time.Now().Add(limit)
	for !ended() && time.Now().Before(deadline) {
		time.Sleep(5 * time.Millisecond)
	}
	if !ended() {
		c.Slow("c19-session-never-ends", "plan %+v: %v after the start header the session has neither ended nor been stopped", plan, limit)
		return
	}
	endAt := time.Now()
	if lastServerWrite.After(endAt) {
		endAt = lastServerWrite
	}
	if ctrlcAt.After(endAt) {
		endAt = ctrlcAt
	}
	// the remote side stays quiet for 1.5 s (three times the half second rule), then prints one probe text
	time.Sleep(time.Until(endAt.Add(1500 * time.Millisecond)))
	helperStarted := false
	if _, err := os.Stat(filepath.Join(helperDir, ".vf_zm_log")); err == nil {
		helperStarted = true
	}
	if plan.Helper == "chooser-slow" {
		// the dialog closes 1.5 s after the start header; give a helper that is wrongly launched then the time to show
		time.Sleep(time.Until(t0.Add(2300 * time.Millisecond)))
		if _, err := os.Stat(filepath.Join(helperDir, ".vf_zm_log")); err == nil {
			helperStarted = true
		}
		stoppedInDialog := plan.Server == "cancel-after" || plan.Server == "cancel-before" || plan.CtrlC > 0
		if stoppedInDialog && helperStarted {
			c.Viol("c19-helper-started-after-stop-in-dialog", "plan %+v: the session was cancelled (remote cancel at 0.04/0.45 s or Ctrl-C at 0.7 s) while the file chooser was open, yet the local helper was started when the chooser closed; the remote side received %q", plan, vfHead(rig.siSink.Bytes()[i0:], 120))
			return
		}
		if !stoppedInDialog && plan.Server == "finish-late" && !helperStarted {
			c.Obs("chooser_slow_helper_not_started", 1)
		}
	}
	if strings.HasPrefix(plan.Server, "cancel-before") && helperStarted && plan.Helper != "missing" {
		c.Viol("c19-helper-started-after-remote-cancel", "plan %+v: the remote side cancelled 40 ms after the start header (before the helper is launched), yet the local helper was started", plan)
		return
	}
	sessionWasReal := !(strings.HasPrefix(plan.Server, "cancel-before") && !helperStarted)
	// (1) the side still waiting got the cancel sequence
	toServer := rig.siSink.Bytes()[i0:]
	remoteCancelledFirst := strings.HasPrefix(plan.Server, "cancel-before") || plan.Helper == "chooser-slow" && plan.Server == "cancel-after" && (plan.CtrlC == 0 || plan.CtrlC > 450)
	if sessionWasReal && !remoteCancelledFirst && !bytes.Contains(toServer, zmodemCancelFullSequence) {
		c.Viol("c19-no-cancel-to-server", "plan %+v: the session ended (helper started=%v) but the remote side was not sent the cancel sequence; it received %q", plan, helperStarted, vfHead(toServer, 80))
		return
	}
	// (1b) in half of the cases the user types first - a letter, then Ctrl-C - while the remote side is still silent
	if len(c.ID)%2 == 0 || strings.Contains(c.ID, "quiet") {
		iB := rig.siSink.Len()
		rig.clientIn.WriteAtomic([]byte("a"))
		time.Sleep(30 * time.Millisecond)
		rig.clientIn.WriteAtomic([]byte{0x03})
		want := []byte("a\x03")
		for dl := time.Now().Add(3 * time.Second); !bytes.Contains(rig.siSink.Bytes()[iB:], want) && time.Now().Before(dl); {
			time.Sleep(5 * time.Millisecond)
		}
		if got := rig.siSink.Bytes()[iB:]; !bytes.Contains(got, want) {
			c.Viol("c19-input-blocked-before-output:"+plan.Helper+":"+plan.Server, "plan %+v: the session ended and the remote side has been quiet for 1.5 s; typed \"a\" and Ctrl-C reached the remote side as %q", plan, vfHead(got, 40))
			return
		}
		c.Obs("typed_first_probes", 1)
	}
	probe := []byte(fmt.Sprintf("PROBE-%s-after-zmodem\r\n", c.ID))
	oBefore := rig.clientOut.Len()
	rig.serverOut.WriteAtomic(probe)
	pd := time.Now().Add(3 * time.Second)
	for !bytes.Contains(rig.clientOut.Bytes()[oBefore:], probe) && time.Now().Before(pd) {
		time.Sleep(5 * time.Millisecond)
	}
	if !bytes.Contains(rig.clientOut.Bytes()[oBefore:], probe) {
		z := f.zmodem.Load()
		state := "nil"
		if z != nil {
			state = fmt.Sprintf("stopped=%v cleaned=%v", z.stopped.Load(), z.cleaned.Load())
		}
		tail := rig.clientOut.Bytes()
		state += fmt.Sprintf(" pending-in-wire=%d", rig.serverOut.Pending())
		c.Viol("c19-output-swallowed:"+plan.Helper+":"+plan.Server, "plan %+v: the remote side was quiet for 1.5 s after the session ended, yet its next output %q never reached the terminal (session %s, helper started=%v); terminal received since the header: %q", plan, probe, state, helperStarted, vfHead(tail[vfMin(o0, len(tail)):], 400))
		return
	}
	// (2) typed input flows again
	iBefore := rig.siSink.Len()
	typed := []byte("ls -l\r")
	rig.clientIn.WriteAtomic(typed)
	pd = time.Now().Add(3 * time.Second)
	for !bytes.Contains(rig.siSink.Bytes()[iBefore:], typed) && time.Now().Before(pd) {
		time.Sleep(5 * time.Millisecond)
	}
	if !bytes.Contains(rig.siSink.Bytes()[iBefore:], typed) {
		c.Viol("c19-input-blocked:"+plan.Helper+":"+plan.Server, "plan %+v: after the session ended and 1.5 s of quiet, typed input does not reach the remote side", plan)
		return
	}
	// (3)/(4) pass-through is fully back and the session is dropped
	if !rig.probe("after-zmodem", [][]byte{[]byte("more output\r\n"), []byte("\x1b[0m$ ")}, [][]byte{[]byte("echo hi\r")}) {
		return
	}
	if f.zmodem.Load() != nil {
		c.Viol("c19-session-not-dropped", "plan %+v: the filter still holds the zmodem session after output passed through again", plan)
		return
	}
	c.Obs("sessions_checked", 1)
	if helperStarted {
		c.Obs("helper_started", 1)
	}
	c.SetAdd("combinations", fmt.Sprintf("%v/%s/%s/c%d", plan.Upload, plan.Helper, plan.Server, plan.CtrlC))
	c.Nontrivial(fmt.Sprintf("%+v", plan))
	if strings.HasSuffix(c.ID, "-0") && plan.CtrlC == 0 && plan.Server == "finish" {
		c.Sample(map[string]interface{}{"plan": plan, "helper_started": helperStarted, "bytes_sent_to_remote": len(toServer), "terminal_tail": string(vfHead(rig.clientOut.Bytes()[vfMax(o0, rig.clientOut.Len()-120):], 120))})
	}
}
