//go:build verif

package trzsz

// Rig F/T: a real client (NewTrzszFilter, or the direct transfer glue of filter.go), 0-2 real
// relays, and the real server role functions of trz.go/tsz.go run in-process, joined by vfWires.

import (
	"bytes"
	"encoding/json"
	"fmt"
	"net"
	"os"
	"path/filepath"
	"strings"
	"sync"
	"sync/atomic"
	"time"
)

type vfCfg struct {
	Dir       string `json:"dir"` // "up" (client -> server, trz) or "down" (tsz)
	Binary    bool   `json:"binary,omitempty"`
	Escape    bool   `json:"escape,omitempty"`
	Directory bool   `json:"directory,omitempty"`
	Overwrite bool   `json:"overwrite,omitempty"`
	Quiet     bool   `json:"quiet,omitempty"`
	Compress  int    `json:"compress,omitempty"`
	Protocol  int    `json:"protocol,omitempty"` // 0/4 native, 2 by version, 1/3 by ACT shim
	Bufsize   int64  `json:"bufsize,omitempty"`
	Timeout   int    `json:"timeout,omitempty"`
	Relays    int    `json:"relays,omitempty"`
	Tunnel    bool   `json:"tunnel,omitempty"`
	Win       bool   `json:"win,omitempty"` // '!\n' framing (child with SetAffectedByWindows + id ..10)
	Seg       string `json:"seg,omitempty"`
	SegK      int    `json:"segk,omitempty"`
	Direct    bool   `json:"direct,omitempty"` // rig T: client glue instead of the filter
}

func (c vfCfg) String() string {
	b, _ := json.Marshal(c)
	return string(b)
}

func (c vfCfg) EffProtocol() int {
	if c.Protocol == 0 {
		return 4
	}
	return c.Protocol
}

var vfIDCounter atomic.Int64

type vfOutcome struct {
	Kind  string   // success | error | cancelled | none
	Text  string   // error text or success message
	Names []string // names reported on success
	Zero  bool     // the success message says in so many words that 0 files were saved
	Err   error
}

type vfSession struct {
	c   *vfCtx
	cfg vfCfg

	// wires, client side first
	c2s []*vfWire // c2s[0] is written by the client, c2s[last] is read by the server
	s2c []*vfWire // s2c[0] is written by the server, s2c[last] is read by the client

	clientIn  *vfWire
	clientOut *vfSink
	filter    *TrzszFilter
	relays    []*TrzszRelay

	ct *trzszTransfer // direct client transfer (rig T) or filter.transfer snapshot
	st *trzszTransfer // server transfer

	srvDone chan struct{}
	cliDone chan struct{}
	srvErr  error
	cliErr  error // rig T only
	srvRet  time.Time
	cliRet  time.Time

	uploadResult <-chan error
	uploadErr    error
	uploadGot    bool

	progress  *vfProgressRec // rig T
	sprogress *vfProgressRec

	listener        net.Listener
	port            int
	uniqueID        string
	trigger         string
	destRoot        string
	srcPaths        []string
	tunnelConns     *vfConnLog
	stdoutMark      int
	doctor          func([]*sourceFile) []*sourceFile             // rewrites the sender's records (hostile names)
	tunnelHook      func(port int, dial func() net.Conn) net.Conn // wraps the client's tunnel connector
	relayTunnelHook func(port int, dial func() net.Conn) net.Conn // wraps the relays' connector towards the server
	tunOut          *vfWire                                       // shadow tap: what the client wrote into its tunnel connection
	tunIn           *vfWire                                       // shadow tap: what the client read from its tunnel connection

	mu sync.Mutex
}

// vfProgressRec is a recording progressCallback (rig T).
type vfProgressRec struct {
	mu     sync.Mutex
	events []string
	done   int
	names  []string
	steps  int
}

func (p *vfProgressRec) add(s string) {
	p.mu.Lock()
	if len(p.events) < 10000 {
		p.events = append(p.events, s)
	}
	p.mu.Unlock()
}
func (p *vfProgressRec) onNum(num int64) { p.add(fmt.Sprintf("num %d", num)) }
func (p *vfProgressRec) onName(name string) {
	p.mu.Lock()
	p.names = append(p.names, name)
	p.mu.Unlock()
	p.add("name " + name)
}
func (p *vfProgressRec) onSize(size int64) { p.add(fmt.Sprintf("size %d", size)) }
func (p *vfProgressRec) onStep(step int64) {
	p.mu.Lock()
	p.steps++
	p.mu.Unlock()
}
func (p *vfProgressRec) onDone() {
	p.mu.Lock()
	p.done++
	p.mu.Unlock()
	p.add("done")
}
func (p *vfProgressRec) setPreSize(size int64) { p.add(fmt.Sprintf("presize %d", size)) }
func (p *vfProgressRec) setPause(pausing bool) {}
func (p *vfProgressRec) Done() int {
	p.mu.Lock()
	defer p.mu.Unlock()
	return p.done
}

// vfTapConn records both directions of the client's tunnel connection.
type vfTapConn struct {
	net.Conn
	out, in *vfWire
}

func (t *vfTapConn) Write(p []byte) (int, error) {
	n, err := t.Conn.Write(p)
	if n > 0 {
		t.out.TapOnly(p[:n])
	}
	return n, err
}

func (t *vfTapConn) Read(p []byte) (int, error) {
	n, err := t.Conn.Read(p)
	if n > 0 {
		t.in.TapOnly(p[:n])
	}
	return n, err
}

type vfConnLog struct {
	mu    sync.Mutex
	conns []net.Conn
}

func vfNewSession(c *vfCtx, cfg vfCfg) *vfSession {
	s := &vfSession{c: c, cfg: cfg, srvDone: make(chan struct{}), cliDone: make(chan struct{})}
	hops := cfg.Relays + 1
	for i := 0; i < hops; i++ {
		s.c2s = append(s.c2s, vfNewWire(fmt.Sprintf("c2s%d", i)))
		s.s2c = append(s.s2c, vfNewWire(fmt.Sprintf("s2c%d", i)))
	}
	if cfg.Seg != "" {
		for i, w := range append(append([]*vfWire{}, s.c2s...), s.s2c...) {
			w.SetSeg(cfg.Seg, cfg.SegK, vfNewRand(c.ID, "seg", i))
		}
	}
	if cfg.Binary {
		// only the data direction carries raw binary blocks
		if cfg.Dir == "up" {
			for _, w := range s.c2s {
				w.binary.Store(true)
			}
		} else {
			for _, w := range s.s2c {
				w.binary.Store(true)
			}
		}
	}
	s.clientIn = vfNewWire("clientIn")
	s.clientOut = vfNewSink()
	s.stdoutMark = vfStdoutMark()
	s.tunOut = vfNewWire("tunOut")
	s.tunIn = vfNewWire("tunIn")
	if cfg.Tunnel {
		if cfg.Dir == "up" {
			s.tunOut.binary.Store(true)
		} else {
			s.tunIn.binary.Store(true)
		}
	}
	return s
}

func (s *vfSession) cliW() *vfWire { return s.c2s[0] }            // what the client wrote
func (s *vfSession) srvW() *vfWire { return s.s2c[0] }            // what the server wrote
func (s *vfSession) cliR() *vfWire { return s.s2c[len(s.s2c)-1] } // what the client reads
func (s *vfSession) srvR() *vfWire { return s.c2s[len(s.c2s)-1] } // what the server reads

// binaryNegotiated tells whether raw binary framing will actually be used.
func (cfg vfCfg) binaryNegotiated() bool {
	if cfg.Tunnel {
		return true
	}
	return cfg.Binary && cfg.Relays == 0 && !cfg.Win
}

func (s *vfSession) version() string {
	if s.cfg.Protocol == 2 {
		return "1.1.0"
	}
	return kTrzszVersion
}

// shim rewrites the protocol field of the ACT line (what an older client would send).
func vfProtocolShim(protocol int) func(line []byte) []byte {
	return func(line []byte) []byte {
		nl := "\n"
		body := bytes.TrimSuffix(line, []byte("\n"))
		if bytes.HasSuffix(body, []byte("!")) {
			nl = "!\n"
			body = bytes.TrimSuffix(body, []byte("!"))
		}
		if !bytes.HasPrefix(body, []byte("#ACT:")) {
			return line
		}
		dec, err := decodeString(string(body[5:]))
		if err != nil {
			return line
		}
		var m map[string]interface{}
		if json.Unmarshal(dec, &m) != nil {
			return line
		}
		m["protocol"] = protocol
		enc, _ := json.Marshal(m)
		return []byte("#ACT:" + encodeString(string(enc)) + nl)
	}
}

// Start wires everything up and starts the server role; the trigger is written last.
func (s *vfSession) Start(srcPaths []string, destRoot string) {
	cfg := s.cfg
	s.srcPaths, s.destRoot = srcPaths, destRoot
	n := vfIDCounter.Add(1)
	idnum := (time.Now().UnixMilli()%1e9)*100 + n%100
	suffix := "00"
	if cfg.Win {
		suffix = "10"
	}
	s.uniqueID = fmt.Sprintf("%011d%s", idnum%1e11, suffix)

	if cfg.Protocol == 1 || cfg.Protocol == 3 {
		s.c2s[0].rewriteFirst = vfProtocolShim(cfg.Protocol)
	}

	// relays between the hops
	for i := 0; i < cfg.Relays; i++ {
		// relay i sits between hop i (client side) and hop i+1 (server side)
		r := NewTrzszRelay(s.c2s[i], vfWriterCloser{s.s2c[len(s.s2c)-1-i]}, vfWriterCloser{s.c2s[i+1]}, s.s2c[len(s.s2c)-2-i], TrzszOptions{})
		s.relays = append(s.relays, r)
	}

	// server
	s.st = newTransfer(s.srvW(), nil, false, nil)
	if cfg.Tunnel {
		s.listener, s.port = listenForTunnel()
		if s.listener != nil {
			s.st.acceptOnTunnel(s.listener, s.uniqueID, s.port)
		}
	}
	wrapTransferInput(s.st, s.srvR(), false)

	// client
	if !cfg.Direct {
		s.filter = NewTrzszFilter(s.clientIn, s.clientOut, vfWriterCloser{s.cliW()}, s.cliR(), TrzszOptions{TerminalColumns: 100})
		if cfg.Tunnel {
			s.filter.SetTunnelConnector(func(port int) net.Conn {
				dial := func() net.Conn {
					conn, err := net.DialTimeout("tcp", fmt.Sprintf("127.0.0.1:%d", port), 2*time.Second)
					if err != nil {
						return nil
					}
					return &vfTapConn{conn, s.tunOut, s.tunIn}
				}
				if s.tunnelHook != nil {
					return s.tunnelHook(port, dial)
				}
				return dial()
			})
			for _, r := range s.relays {
				r.SetTunnelConnector(func(port int) net.Conn {
					dial := func() net.Conn {
						conn, err := net.DialTimeout("tcp", fmt.Sprintf("127.0.0.1:%d", port), 2*time.Second)
						if err != nil {
							return nil
						}
						return conn
					}
					if s.relayTunnelHook != nil {
						return s.relayTunnelHook(port, dial)
					}
					return dial()
				})
			}
		}
		if cfg.Dir == "down" {
			s.filter.SetDefaultDownloadPath(destRoot)
		} else {
			ch, err := s.filter.OneTimeUpload(srcPaths)
			if err != nil {
				s.c.Inconc("OneTimeUpload refused: %v", err)
			}
			s.uploadResult = ch
		}
	}

	mode := "S"
	if cfg.Dir == "up" {
		mode = "R"
		if cfg.Directory {
			mode = "D"
		}
	}
	s.trigger = fmt.Sprintf("\x1b7\x07::TRZSZ:TRANSFER:%s:%s:%s:%d\r\n", mode, s.version(), s.uniqueID, s.port)

	base := baseArgs{Quiet: cfg.Quiet, Overwrite: cfg.Overwrite, Binary: cfg.Binary, Escape: cfg.Escape,
		Directory: cfg.Directory, Bufsize: bufferSize{cfg.Bufsize}, Timeout: cfg.Timeout, Compress: compressType(cfg.Compress)}
	if base.Bufsize.Size == 0 {
		base.Bufsize.Size = 10 * 1024 * 1024
	}

	// server role goroutine: the body of TrzMain/TszMain's worker goroutine
	go func() {
		defer close(s.srvDone)
		var err error
		if cfg.Dir == "up" {
			args := &trzArgs{baseArgs: base, Path: destRoot}
			err = recvFiles(s.st, args, noTmuxMode, -1)
		} else {
			var files []*sourceFile
			files, err = checkPathsReadable(srcPaths, cfg.Directory)
			if err == nil && cfg.Overwrite {
				err = checkDuplicateNames(files)
			}
			if err == nil {
				if s.doctor != nil {
					files = s.doctor(files)
				}
				args := &tszArgs{baseArgs: base, File: srcPaths}
				err = sendFiles(s.st, files, args, noTmuxMode, -1)
			}
		}
		if err != nil {
			s.st.serverError(err)
		}
		s.st.cleanup()
		s.mu.Lock()
		s.srvErr = err
		s.srvRet = time.Now()
		s.mu.Unlock()
	}()

	if cfg.Direct {
		s.startDirectClient(mode)
	}

	// finally the trigger (one read, as the detector works per read)
	if !cfg.Direct {
		s.srvW().WriteAtomic([]byte(s.trigger))
	}
}

type vfWriterCloser struct{ w *vfWire }

func (v vfWriterCloser) Write(p []byte) (int, error) { return v.w.Write(p) }
func (v vfWriterCloser) Close() error                { return v.w.Close() }

// startDirectClient runs the glue of filter.downloadFiles / filter.uploadFiles on a bare transfer.
func (s *vfSession) startDirectClient(mode string) {
	cfg := s.cfg
	s.ct = newTransfer(s.cliW(), nil, false, nil)
	wrapTransferInput(s.ct, s.cliR(), false)
	s.progress = &vfProgressRec{}
	ver, _ := parseTrzszVersion(s.version())
	go func() {
		defer close(s.cliDone)
		err := func() error {
			if cfg.Dir == "down" {
				if err := s.ct.sendAction(true, ver, cfg.Win); err != nil {
					return err
				}
				if _, err := s.ct.recvConfig(); err != nil {
					return err
				}
				names, err := s.ct.recvFiles(s.destRoot, s.progress)
				if err != nil {
					return err
				}
				return s.ct.clientExit(formatSavedFiles(names, s.destRoot))
			}
			files, err := checkPathsReadable(s.srcPaths, cfg.Directory)
			if err != nil {
				return err
			}
			if err := s.ct.sendAction(true, ver, cfg.Win); err != nil {
				return err
			}
			config, err := s.ct.recvConfig()
			if err != nil {
				return err
			}
			if config.Overwrite {
				if err := checkDuplicateNames(files); err != nil {
					return err
				}
			}
			if s.doctor != nil {
				files = s.doctor(files)
			}
			names, err := s.ct.sendFiles(files, s.progress)
			if err != nil {
				return err
			}
			return s.ct.clientExit(formatSavedFiles(names, ""))
		}()
		if err != nil {
			s.ct.clientError(err)
		}
		s.ct.cleanup()
		s.mu.Lock()
		s.cliErr = err
		s.cliRet = time.Now()
		s.mu.Unlock()
	}()
}

// WaitServer waits for the server role to return.
func (s *vfSession) WaitServer(d time.Duration) bool {
	select {
	case <-s.srvDone:
		return true
	case <-time.After(d):
		return false
	}
}

// WaitClient waits until the client side has finished its part: rig T the glue returned; rig F
// the handler cleared filter.transfer after having set it (or never sets it and an end line was sent).
func (s *vfSession) WaitClient(d time.Duration) bool {
	if s.cfg.Direct {
		select {
		case <-s.cliDone:
			return true
		case <-time.After(d):
			return false
		}
	}
	deadline := time.Now().Add(d)
	for {
		if s.clientEnded() {
			return true
		}
		if time.Now().After(deadline) {
			return false
		}
		time.Sleep(5 * time.Millisecond)
	}
}

func (s *vfSession) clientEnded() bool {
	if s.filter.IsTransferringFiles() {
		return false
	}
	// the handler writes its last line before clearing the pointer
	for _, w := range []*vfWire{s.cliW(), s.tunOut} {
		for _, m := range w.Msgs() {
			if m.End > 0 && (m.Type == "EXIT" || m.Type == "fail" || m.Type == "FAIL") {
				return true
			}
		}
	}
	// peer-reported failure: nothing is written by the client; handler gone when no goroutine is in handleTrzsz
	for _, g := range vfCaseGoroutines(s.c.ID) {
		for _, fn := range g.Frames {
			if strings.Contains(fn, "(*TrzszFilter).handleTrzsz") {
				return false
			}
		}
	}
	return s.cliW().TapLen()+s.tunOut.TapLen() > 0
}

// ClientOutcome classifies what the client told its user / peer (M-say).
func (s *vfSession) ClientOutcome() vfOutcome {
	if s.cfg.Direct {
		s.mu.Lock()
		err := s.cliErr
		s.mu.Unlock()
		if err != nil {
			return vfOutcome{Kind: "error", Text: err.Error(), Err: err}
		}
	}
	for _, w := range []*vfWire{s.cliW(), s.tunOut} {
		tap := w.Tap()
		for _, m := range w.Msgs() {
			if m.End == 0 {
				continue
			}
			switch m.Type {
			case "EXIT", "fail", "FAIL":
				line := m.Full // (the raw tap is capped; the parsed line is kept whole)
				if line == nil && m.End <= int64(len(tap)) {
					line = bytes.TrimSuffix(bytes.TrimRight(tap[m.Start:m.End], "\n"), []byte("!"))
				}
				if line == nil {
					continue
				}
				i := bytes.IndexByte(line, ':')
				dec, err := decodeString(string(line[i+1:]))
				if err != nil {
					return vfOutcome{Kind: "error", Text: "undecodable " + m.Type}
				}
				if m.Type == "EXIT" {
					n, _, names, ok := vfParseSaved(string(dec))
					return vfOutcome{Kind: "success", Text: string(dec), Names: names, Zero: ok && n == 0 && len(names) == 0}
				}
				return vfOutcome{Kind: "error", Text: string(dec)}
			}
		}
	}
	return vfOutcome{Kind: "none"}
}

// ServerOutcome classifies what the server role returned / printed.
// actConfirm reports what the client's ACT line said: 1 confirm, 0 declined (the server then prints
// "Cancelled" and its role function returns nil), -1 no ACT seen.
func (s *vfSession) actConfirm() int {
	for _, w := range []*vfWire{s.cliW(), s.tunOut} {
		for _, m := range w.Msgs() {
			if m.Type != "ACT" || len(m.Full) < 6 {
				continue
			}
			if dec, err := decodeString(string(m.Full[5:])); err == nil {
				var a transferAction
				if json.Unmarshal(dec, &a) == nil {
					if a.Confirm {
						return 1
					}
					return 0
				}
			}
		}
	}
	return -1
}

func (s *vfSession) ServerOutcome() vfOutcome {
	s.mu.Lock()
	err := s.srvErr
	s.mu.Unlock()
	if err != nil {
		return vfOutcome{Kind: "error", Text: err.Error(), Err: err}
	}
	if s.actConfirm() == 0 {
		return vfOutcome{Kind: "cancelled", Text: "Cancelled"}
	}
	if s.cfg.Dir == "up" {
		// message printed by serverExit: "Saved N ... to <dest>\r\n- names"
		key := " to " + s.destRoot + "\r\n"
		deadline := time.Now().Add(2 * time.Second)
		for {
			if msg, ok := vfStdoutFind(key, s.stdoutMark); ok {
				n, _, names, ok := vfParseSaved(msg)
				return vfOutcome{Kind: "success", Text: msg, Names: names, Zero: ok && n == 0 && len(names) == 0}
			}
			if msg, ok := vfStdoutFind(" to "+s.destRoot, s.stdoutMark); ok && !strings.Contains(msg, "\r\n- ") {
				return vfOutcome{Kind: "success", Text: msg}
			}
			if time.Now().After(deadline) {
				break
			}
			time.Sleep(10 * time.Millisecond)
		}
		return vfOutcome{Kind: "success", Text: "(message not captured)"}
	}
	return vfOutcome{Kind: "success"}
}

// Close tears the connection down so that lifetime goroutines end.
func (s *vfSession) Close() {
	if s.listener != nil {
		s.listener.Close()
	}
	for _, w := range s.c2s {
		w.Close()
	}
	for _, w := range s.s2c {
		w.Close()
	}
	s.clientIn.Close()
}

// ---------------------------------------------------------------- source trees

type vfFileSpec struct {
	Rel     string `json:"rel"`
	Dir     bool   `json:"dir,omitempty"`
	Size    int    `json:"size"`
	Content string `json:"content,omitempty"` // zeros text rand esc comp
}

func vfMakeContent(r *vfRand, kind string, size int) []byte {
	switch kind {
	case "zeros":
		return make([]byte, size)
	case "text":
		words := []string{"the ", "quick ", "brown ", "fox ", "jumps\n", "over ", "lazy ", "dog ", "0123456789 ", "~~~ "}
		var b bytes.Buffer
		for b.Len() < size {
			b.WriteString(words[r.Intn(len(words))])
		}
		return b.Bytes()[:size]
	case "esc":
		set := []byte{'~', 0xee, 0x18, 0x1b, 0x0d, 0x10, 0x11, 0x13, 0x1d, 0x8d, 0x90, 0x91, 0x93, 0x9d, 0x02, 'a'}
		b := make([]byte, size)
		for i := range b {
			b[i] = set[r.Intn(len(set))]
		}
		return b
	default: // rand (incompressible)
		return r.Bytes(size)
	}
}

func vfWriteTree(root string, specs []vfFileSpec, r *vfRand) error {
	for _, sp := range specs {
		p := filepath.Join(root, sp.Rel)
		if sp.Dir {
			if err := os.MkdirAll(p, 0755); err != nil {
				return err
			}
			continue
		}
		if err := os.MkdirAll(filepath.Dir(p), 0755); err != nil {
			return err
		}
		if err := os.WriteFile(p, vfMakeContent(r, sp.Content, sp.Size), 0644); err != nil {
			return err
		}
	}
	return nil
}

var vfSizes = []int{0, 1, 511, 512, 513, 1023, 1024, 10239, 10240, 10241, 128*1024 - 1, 128 * 1024, 128*1024 + 1, 384 * 1024, 700 * 1024}
var vfNames = []string{"a.bin", "with space.txt", "中文文件.dat", "emoji😀.bin", "-dash", ".hidden", "UPPER.TXT", "tilde~name", "x", "back\\slash.txt", "two..dots", "trailing\\", "quote\"name", "semi;colon&amp"}

// vfGenTree draws a source tree: a list of top-level paths and the specs below them.
func vfGenTree(r *vfRand, directory bool, maxSize int, maxFiles int) (tops []string, specs []vfFileSpec) {
	kinds := []string{"zeros", "text", "rand", "esc", "rand", "text"}
	pickSize := func() int {
		for {
			s := vfSizes[r.Intn(len(vfSizes))]
			if r.Intn(4) == 0 {
				s = r.Intn(maxSize + 1)
			}
			if s <= maxSize {
				return s
			}
		}
	}
	ntop := 1 + r.Intn(3)
	used := map[string]bool{}
	for i := 0; i < ntop; i++ {
		name := vfNames[r.Intn(len(vfNames))]
		if r.Intn(6) == 0 {
			name = strings.Repeat("n", 180+r.Intn(60)) + fmt.Sprint(i)
		}
		if used[name] {
			name = fmt.Sprintf("%d_%s", i, name)
		}
		used[name] = true
		if directory && r.Intn(2) == 0 {
			tops = append(tops, name)
			specs = append(specs, vfFileSpec{Rel: name, Dir: true})
			nf := r.Intn(maxFiles + 1)
			for j := 0; j < nf; j++ {
				sub := name
				depth := r.Intn(3)
				for d := 0; d < depth; d++ {
					sub = filepath.Join(sub, r.PickStr("d1", "d 2", "目录", "e"))
				}
				if r.Intn(5) == 0 {
					specs = append(specs, vfFileSpec{Rel: filepath.Join(sub, fmt.Sprintf("empty%d", j)), Dir: true})
					continue
				}
				specs = append(specs, vfFileSpec{Rel: filepath.Join(sub, fmt.Sprintf("f%d_%s", j, vfNames[r.Intn(len(vfNames))])), Size: pickSize(), Content: kinds[r.Intn(len(kinds))]})
			}
		} else {
			tops = append(tops, name)
			specs = append(specs, vfFileSpec{Rel: name, Size: pickSize(), Content: kinds[r.Intn(len(kinds))]})
		}
	}
	return
}
