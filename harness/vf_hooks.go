//go:build verif

package trzsz

// Overlay-added file (never committed to the repository). vfYield is called from
// the instrumented copies of the package's sources produced by cmd/vfinstr.

import (
	"os"
	"runtime"
	"strconv"
	"strings"
	"sync"
	"sync/atomic"
	"time"
)

type vfYieldPlan struct {
	mode    string // "random", "point", "pair"
	seed    uint64
	pointA  int
	pointB  int
	delay   time.Duration
	counter atomic.Uint64
	trace   bool
	mu      sync.Mutex
	ring    []int32
	visited [1024]atomic.Uint32
	hook    func(n int)
	slow    map[int]time.Duration // extra fixed delay at these points, whatever the mode
}

var vfPlan atomic.Pointer[vfYieldPlan]

func vfMix(x uint64) uint64 {
	x += 0x9e3779b97f4a7c15
	x = (x ^ (x >> 30)) * 0xbf58476d1ce4e5b9
	x = (x ^ (x >> 27)) * 0x94d049bb133111eb
	return x ^ (x >> 31)
}

func vfYield(n int) {
	p := vfPlan.Load()
	if p == nil {
		return
	}
	if n >= 0 && n < len(p.visited) {
		p.visited[n].Add(1)
	}
	if p.trace {
		p.mu.Lock()
		if len(p.ring) < 1<<16 {
			p.ring = append(p.ring, int32(n))
		}
		p.mu.Unlock()
	}
	if p.hook != nil {
		p.hook(n)
	}
	if d, ok := p.slow[n]; ok {
		time.Sleep(d)
	}
	switch p.mode {
	case "random":
		c := p.counter.Add(1)
		h := vfMix(p.seed ^ vfMix(c) ^ uint64(n)*0x100000001b3)
		switch r := h % 64; {
		case r < 40:
		case r < 56:
			runtime.Gosched()
		case r < 63:
			time.Sleep(time.Duration(1+(h>>8)%200) * time.Microsecond)
		default:
			time.Sleep(time.Duration(1+(h>>8)%3) * time.Millisecond)
		}
	case "point":
		if n == p.pointA {
			time.Sleep(p.delay)
		}
	case "pair":
		if n == p.pointA || n == p.pointB {
			time.Sleep(p.delay)
		}
	}
}

// vfSetPlan installs a perturbation plan; nil switches perturbation off.
func vfSetPlan(p *vfYieldPlan) { vfPlan.Store(p) }

func init() {
	// real binaries (trz/tsz/trzsz built through the overlay) read the plan from the environment
	s := os.Getenv("VF_YIELD_PLAN")
	if s == "" {
		return
	}
	f := strings.Split(s, ":")
	p := &vfYieldPlan{mode: f[0]}
	if len(f) > 1 {
		v, _ := strconv.ParseUint(f[1], 10, 64)
		p.seed = v
		p.pointA = int(v)
	}
	if len(f) > 2 {
		v, _ := strconv.Atoi(f[2])
		p.delay = time.Duration(v) * time.Millisecond
	}
	vfPlan.Store(p)
}
