//go:build verif

package trzsz

import (
	"bytes"
	"fmt"
	"os"
	"strconv"
	"strings"
	"testing"
	"time"
)

// ---------------------------------------------------------------- independent recogniser (no regexp)

type vfTrig struct {
	Mode    byte
	Version [3]uint32
	ID      string
	Win     bool
	Port    int
	Prefix  string
	Start   int // offset of "::TRZSZ:TRANSFER:" in the (possibly re-tagged) buffer
	End     int // offset just after the id/port run
}

const vfLit = "::TRZSZ:TRANSFER:"

func vfIsDigit(b byte) bool { return b >= '0' && b <= '9' }

func vfScanDigits(b []byte, i int) int {
	for i < len(b) && vfIsDigit(b[i]) {
		i++
	}
	return i
}

// vfParseTriggerAt parses the grammar at position i (which must hold the literal).
func vfParseTriggerAt(b []byte, i int) (t vfTrig, ok bool) {
	if !bytes.HasPrefix(b[i:], []byte(vfLit)) {
		return t, false
	}
	t.Start = i
	p := i + len(vfLit)
	if p >= len(b) || (b[p] != 'S' && b[p] != 'R' && b[p] != 'D') {
		return t, false
	}
	t.Mode = b[p]
	p++
	if p >= len(b) || b[p] != ':' {
		return t, false
	}
	p++
	var parts [3]string
	for k := 0; k < 3; k++ {
		q := vfScanDigits(b, p)
		if q == p {
			return t, false
		}
		parts[k] = string(b[p:q])
		p = q
		if k < 2 {
			if p >= len(b) || b[p] != '.' {
				return t, false
			}
			p++
		}
	}
	verOK := true
	for k := 0; k < 3; k++ {
		v, err := strconv.ParseUint(parts[k], 10, 32)
		if err != nil {
			verOK = false
		}
		t.Version[k] = uint32(v)
	}
	// optional :id, optional :port
	if p < len(b) && b[p] == ':' {
		q := vfScanDigits(b, p+1)
		if q > p+1 {
			t.ID = string(b[p+1 : q])
			p = q
			if p < len(b) && b[p] == ':' {
				q := vfScanDigits(b, p+1)
				if q > p+1 {
					if v, err := strconv.Atoi(string(b[p+1 : q])); err == nil {
						t.Port = v
					}
					t.End = q
					t.Prefix = "port"
					p = q
				}
			}
		}
	}
	if t.End == 0 {
		t.End = p
	}
	if !verOK {
		return t, false
	}
	return t, true
}

type vfIDHistory struct {
	recent []string // tracked ids, most recent last
}

func vfTracked(id string, winEnv bool) bool {
	return len(id) > 6 && (winEnv || !(len(id) == 13 && strings.HasSuffix(id, "00")))
}

// vfRetag applies the relay's id re-tagging (..00 -> ..20 for ids of 13+ digits) to the whole buffer.
func vfRetag(b []byte) []byte {
	out := b
	pos := 0
	for {
		i := bytes.Index(out[pos:], []byte(vfLit))
		if i < 0 {
			return out
		}
		i += pos
		t, _ := vfParseTriggerAt(out, i)
		pos = i + len(vfLit)
		// the id group needs mode, version and an id of >= 13 digits (validity of the version number is irrelevant here)
		if t.Mode == 0 || len(t.ID) < 13 || !strings.HasSuffix(t.ID, "00") {
			continue
		}
		// the real expression requires the id to be directly after the version
		nid := []byte(t.ID)
		nid[len(nid)-2] = '2'
		out = bytes.ReplaceAll(out, []byte(t.ID), nid)
	}
}

// vfControlPrefix finds the leftmost tmux control-mode prefix that is followed by a trigger literal on the same line.
func vfControlPrefix(b []byte) string {
	for i := 0; i < len(b); i++ {
		if b[i] != '%' {
			continue
		}
		for _, head := range []string{"%output %", "%extended-output %"} {
			if !bytes.HasPrefix(b[i:], []byte(head)) {
				continue
			}
			p := i + len(head)
			q := vfScanDigits(b, p)
			if q == p || q >= len(b) || b[q] != ' ' {
				continue
			}
			q++
			if head == "%extended-output %" {
				q2 := vfScanDigits(b, q)
				if q2 == q || !bytes.HasPrefix(b[q2:], []byte(" : ")) {
					continue
				}
				q = q2 + 3
			}
			// same line must contain the literal after the prefix
			eol := bytes.IndexByte(b[q:], '\n')
			line := b[q:]
			if eol >= 0 {
				line = b[q : q+eol]
			}
			if bytes.Contains(line, []byte(vfLit)) {
				return string(b[i:q])
			}
		}
	}
	return ""
}

// vfModelDetect decides whether a read fires. verdict: 1 fire, 0 no fire, -1 either (id repeated beyond the guaranteed memory).
func vfModelDetect(read []byte, relay, tunnel, winEnv bool, hist *vfIDHistory) (verdict int, t vfTrig, buf []byte) {
	buf = read
	if len(read) < 24 {
		return 0, t, buf
	}
	if bytes.LastIndex(read, []byte(vfLit)) < 0 {
		return 0, t, buf
	}
	if relay {
		buf = vfRetag(read)
	}
	idx := bytes.LastIndex(buf, []byte(vfLit))
	t, ok := vfParseTriggerAt(buf, idx)
	if !ok {
		return 0, t, buf
	}
	prefix := vfControlPrefix(buf)
	if prefix != "" && (!tunnel || t.Prefix != "port") {
		return 0, t, buf
	}
	t.Prefix = prefix
	sub := buf[idx:]
	if len(sub) > 40 {
		for _, w := range []string{"#CFG:", "Saved", "Cancelled", "Stopped", "Interrupted"} {
			if bytes.Contains(sub[40:], []byte(w)) {
				return 0, t, buf
			}
		}
	}
	t.Win = t.ID == "1" || (len(t.ID) == 13 && strings.HasSuffix(t.ID, "10"))
	if vfTracked(t.ID, winEnv) {
		for k := len(hist.recent) - 1; k >= 0; k-- {
			if hist.recent[k] == t.ID {
				// the id memory is trimmed to its newer half when it exceeds 100 entries: at its smallest (right after a
				// trim) it still holds the newest id and the 51 before it, so up to 51 newer distinct ids are always covered
				if len(hist.recent)-1-k < 52 {
					return 0, t, buf // repeated within the guaranteed memory
				}
				return -1, t, buf
			}
		}
		hist.recent = append(hist.recent, t.ID)
	}
	return 1, t, buf
}

// ---------------------------------------------------------------- generators

func vfGenTrigger(r *vfRand, n int) string {
	mode := "SRD"[r.Intn(3)]
	ver := []string{"0.0.0", "1.1.0", "1.1.3", "1.1.4", "1.1.5", "10.20.30", "4294967295.0.1", "4294967296.1.1", "1.99999999999.2"}[r.Intn(9)]
	if r.Intn(3) == 0 {
		ver = fmt.Sprintf("%d.%d.%d", r.Intn(3), r.Intn(12), r.Intn(40))
	}
	s := fmt.Sprintf("::TRZSZ:TRANSFER:%c:%s", mode, ver)
	switch r.Intn(8) {
	case 0: // no id
	case 1:
		s += ":" + []string{"1", "7", "123456", "1234567", "000000000000"}[r.Intn(5)]
	default:
		suffix := []string{"00", "10", "20", "01", "99"}[r.Intn(5)]
		digits := r.PickInt(11, 11, 11, 12, 14)
		id := ""
		for k := 0; k < digits; k++ {
			id += string(rune('0' + r.Intn(10)))
		}
		s += ":" + id + suffix
		switch r.Intn(5) {
		case 0:
		case 1:
			s += ":0"
		case 2:
			s += ":65535"
		case 3:
			s += ":99999999999999999999"
		default:
			s += fmt.Sprintf(":%d", 1024+r.Intn(60000))
		}
	}
	_ = n
	return s
}

func vfGenPrefix(r *vfRand) string {
	switch r.Intn(8) {
	case 0:
		return ""
	case 1:
		return "\x1b7\x07"
	case 2:
		return "user@host:~$ tsz file\r\n\x1b7\x07"
	case 3:
		return string(r.Bytes(r.Intn(60)))
	case 4:
		return "\x1b[01;32mls\x1b[0m TRZSZ \x1b[K::TRZSZ:TRANS\r\n"
	case 5:
		return "::TRZSZ:TRANSFER:S:1.1\r\n" // an earlier incomplete trigger
	case 6:
		return "::TRZSZ:TRANSFER:R:1.0.0:12345678901200:77 Saved 1 file\r\n" // an earlier complete one
	default:
		return "%output %1 " + []string{"", "\\0337\\007"}[r.Intn(2)]
	}
}

func vfGenSuffix(r *vfRand) string {
	switch r.Intn(10) {
	case 0:
		return ""
	case 1:
		return "\r\n"
	case 2:
		return "\r\n" + strings.Repeat("x", r.Intn(40)) + []string{"Saved 1 file", "Cancelled", "Stopped", "Interrupted", "#CFG:abc", "saved", "cancelled"}[r.Intn(7)]
	case 3:
		return "\r\n#ACT:zzz\n"
	case 4:
		return "#R\r\n"
	case 5:
		return ":" // dangling colon
	case 6:
		return "\r\n" + strings.Repeat("p", 10+r.Intn(40)) + "\r\nSaved 2 files/directories to /tmp\r\n- a\r\n- b\r\n"
	default:
		return "\r\n"
	}
}

func vfMutate(r *vfRand, s string) string {
	b := []byte(s)
	if len(b) == 0 {
		return s
	}
	switch r.Intn(4) {
	case 0: // truncate
		return string(b[:r.Intn(len(b))])
	case 1: // substitute
		i := r.Intn(len(b))
		b[i] = "x:.0S#\n "[r.Intn(8)]
		return string(b)
	case 2: // delete
		i := r.Intn(len(b))
		return string(append(b[:i:i], b[i+1:]...))
	default: // insert
		i := r.Intn(len(b) + 1)
		c := "x:.0 \r"[r.Intn(6)]
		return string(append(append(append([]byte{}, b[:i]...), c), b[i:]...))
	}
}

func vfLookaheadHit(b []byte) bool {
	i := bytes.LastIndex(b, []byte(vfLit))
	if i < 0 || len(b)-i <= 40 {
		return false
	}
	for _, w := range []string{"#CFG:", "Saved", "Cancelled", "Stopped", "Interrupted"} {
		if bytes.Contains(b[i+40:], []byte(w)) {
			return true
		}
	}
	return false
}

// vfCheckDetectorRead runs one read through a real detector and the model.
func vfCheckDetectorRead(c *vfCtx, det *trzszDetector, hist *vfIDHistory, read []byte, relay, tunnel bool) (fired bool, ok bool) {
	in := append([]byte(nil), read...)
	verdict, want, wantBuf := vfModelDetect(read, relay, tunnel, vfWinEnv, hist)
	out, trig := det.detectTrzsz(in, tunnel)
	fired = trig != nil
	if verdict == -1 {
		c.Obs("reads_model_dont_care", 1)
		if fired && vfTracked(want.ID, vfWinEnv) {
			hist.recent = append(hist.recent, want.ID)
		}
		return fired, true
	}
	if fired != (verdict == 1) {
		c.Viol(fmt.Sprintf("c06-detector-fire-%v-model-%d-relay-%v", fired, verdict, relay), "read %q: real detector fired=%v, model verdict=%d (relay=%v tunnel=%v)", vfHead(read, 300), fired, verdict, relay, tunnel)
		return fired, false
	}
	if !fired {
		c.Obs("reads_negative", 1)
		if !bytes.Equal(out, wantBuf) {
			c.Viol("c06-nonfiring-read-modified", "read %q did not fire but the detector returned %q (relay=%v)", vfHead(read, 200), vfHead(out, 200), relay)
			return fired, false
		}
		return fired, true
	}
	c.Obs("reads_positive", 1)
	ver := trzszVersion(want.Version)
	if trig.mode != want.Mode || trig.version == nil || *trig.version != ver || trig.uniqueID != want.ID || trig.winServer != want.Win || trig.tunnelPort != want.Port || trig.tmuxPrefix != want.Prefix {
		c.Viol("c06-trigger-fields", "read %q: fields real {mode %c ver %v id %q win %v port %d prefix %q} model {mode %c ver %v id %q win %v port %d prefix %q}", vfHead(read, 300),
			trig.mode, trig.version, trig.uniqueID, trig.winServer, trig.tunnelPort, trig.tmuxPrefix, want.Mode, want.Version, want.ID, want.Win, want.Port, want.Prefix)
		return fired, false
	}
	if !relay {
		// shown locally in a form no further wrapper reacts to
		for _, rl := range []bool{false, true} {
			d2 := newTrzszDetector(rl, rl)
			if _, t2 := d2.detectTrzsz(append([]byte(nil), out...), tunnel); t2 != nil {
				c.Viol("c06-local-form-retriggers", "client output %q of read %q fires a fresh %s detector again", vfHead(out, 300), vfHead(read, 200), map[bool]string{false: "client", true: "relay"}[rl])
				return fired, false
			}
		}
		if bytes.Contains(out, []byte(vfLit)) {
			c.Viol("c06-local-form-has-trigger", "client output %q still contains a raw trigger literal", vfHead(out, 300))
			return fired, false
		}
	} else {
		// relay: forwarded in a form the real client still recognises once, marked as relayed
		d2 := newTrzszDetector(false, false)
		out2, t2 := d2.detectTrzsz(append([]byte(nil), out...), tunnel)
		if want.Prefix == "" || tunnel {
			if t2 == nil && vfLookaheadHit(out) {
				// a finished-transfer word 38-39 bytes after the trigger start: the two bytes of "#R" move it
				// across the 40-byte look-ahead. Scroll-back by the property's words; recorded, not judged.
				c.Obs("relay_client_lookahead_boundary_reads", 1)
				return fired, true
			}
			if t2 == nil {
				c.Viol("c06-relay-form-not-recognised", "relay output %q of read %q is not recognised by a fresh client detector", vfHead(out, 300), vfHead(read, 200))
				return fired, false
			}
			if t2.mode != want.Mode || *t2.version != ver || t2.uniqueID != want.ID || t2.tunnelPort != want.Port {
				c.Viol("c06-relay-form-fields", "relay output %q recognised with different fields: mode %c ver %v id %q port %d, expected %c %v %q %d", vfHead(out, 300), t2.mode, t2.version, t2.uniqueID, t2.tunnelPort, want.Mode, want.Version, want.ID, want.Port)
				return fired, false
			}
			_ = out2
		}
		// "#R" directly after the id/port run of the last trigger
		mark := want.Start + 20 // the code skips the run of [:.0-9] that starts at the version
		for mark < len(wantBuf) && (wantBuf[mark] == ':' || wantBuf[mark] == '.' || vfIsDigit(wantBuf[mark])) {
			mark++
		}
		if mark+2 > len(out) || string(out[mark:mark+2]) != "#R" {
			if !(want.Start+20 >= len(wantBuf)) { // nothing follows the literal: the code documents "unchanged"
				c.Viol("c06-relay-mark-missing", "relay output %q has no #R right after the id/port run (offset %d) of read %q", vfHead(out, 300), mark, vfHead(read, 200))
				return fired, false
			}
		}
		rest := append(append([]byte(nil), out[:mark]...), out[vfMin(len(out), mark+2):]...)
		if !bytes.Equal(rest, wantBuf) {
			c.Viol("c06-relay-output-differs", "relay output %q differs from the (re-tagged) input %q by more than the #R mark", vfHead(out, 300), vfHead(wantBuf, 300))
			return fired, false
		}
	}
	return fired, true
}

func TestVF_C06(t *testing.T) {
	if vfWinEnv {
		SetAffectedByWindows(true)
	}
	var cases []vfCase
	tag := ""
	if vfWinEnv {
		tag = "win-"
	}
	// detector level: generated reads
	nd := vfPick(400, 8000)
	for i := 0; i < nd; i++ {
		i := i
		cases = append(cases, vfCase{ID: fmt.Sprintf("%sdet-%d", tag, i), Run: func(c *vfCtx) {
			r := c.R
			relay := i%2 == 1
			tunnel := r.Intn(2) == 0
			det := newTrzszDetector(relay, relay)
			hist := &vfIDHistory{}
			pos, neg := 0, 0
			for k := 0; k < 100; k++ {
				trg := vfGenTrigger(r, k)
				read := vfGenPrefix(r) + trg + vfGenSuffix(r)
				if r.Intn(3) == 0 {
					read = vfGenPrefix(r) + vfMutate(r, trg) + vfGenSuffix(r)
				}
				if r.Intn(12) == 0 {
					read = vfMutate(r, read)
				}
				fired, ok := vfCheckDetectorRead(c, det, hist, []byte(read), relay, tunnel)
				if !ok {
					c.Replay(map[string]interface{}{"read": read, "relay": relay, "tunnel": tunnel, "k": k})
					return
				}
				if fired {
					pos++
				} else {
					neg++
				}
			}
			if pos > 0 && neg > 0 {
				c.Nontrivial(fmt.Sprintf("det#%d relay=%v tunnel=%v pos=%d neg=%d", i, relay, tunnel, pos, neg))
			}
			if i < 2 {
				c.Sample(map[string]interface{}{"level": "detector", "relay": relay, "tunnel": tunnel, "reads": 100, "fired": pos, "not_fired": neg, "example": vfGenTrigger(r, 0)})
			}
		}})
	}
	// every truncation and every single-byte corruption of the lines the real servers print
	for i, base := range []string{
		fmt.Sprintf("\x1b7\x07::TRZSZ:TRANSFER:R:%s:%013d:%d\r\n", kTrzszVersion, int64(1234567890100), 43210),
		fmt.Sprintf("\x1b7\x07::TRZSZ:TRANSFER:S:%s:%013d:%d\r\n", kTrzszVersion, int64(1234567890120), 0),
		fmt.Sprintf("\x1b7\x07::TRZSZ:TRANSFER:D:%s:%013d:%d\r\n", kTrzszVersion, int64(1234567890110), 65535),
	} {
		i, base := i, base
		cases = append(cases, vfCase{ID: fmt.Sprintf("%sedit-%d", tag, i), Run: func(c *vfCtx) {
			n := 0
			for _, relay := range []bool{false, true} {
				for cut := 0; cut <= len(base); cut++ {
					det := newTrzszDetector(relay, relay)
					if _, ok := vfCheckDetectorRead(c, det, &vfIDHistory{}, []byte(base[:cut]), relay, true); !ok {
						return
					}
					n++
				}
				for pos := 0; pos < len(base); pos++ {
					for _, ch := range []byte{'x', ':', '.', '0', 'S', ' ', '#', '\n'} {
						b := []byte(base)
						b[pos] = ch
						det := newTrzszDetector(relay, relay)
						if _, ok := vfCheckDetectorRead(c, det, &vfIDHistory{}, b, relay, true); !ok {
							return
						}
						n++
					}
				}
			}
			c.Obs("truncations_and_corruptions", int64(n))
			c.Nontrivial(fmt.Sprintf("edit %d", i))
		}})
	}
	// id histories with repeats at chosen distances
	nh := vfPick(30, 400)
	for i := 0; i < nh; i++ {
		i := i
		cases = append(cases, vfCase{ID: fmt.Sprintf("%shist-%d", tag, i), Run: func(c *vfCtx) {
			r := c.R
			relay := i%2 == 1
			det := newTrzszDetector(relay, relay)
			hist := &vfIDHistory{}
			var ids []string
			repeats := 0
			for k := 0; k < 300; k++ {
				var id string
				if len(ids) > 0 && r.Intn(4) == 0 {
					d := r.PickInt(1, 2, 48, 49, 50, 51, 100, 101, 150)
					if d <= len(ids) {
						id = ids[len(ids)-d]
						repeats++
					}
				}
				if id == "" {
					suffix := []string{"20", "10", "00", "20", "20"}[r.Intn(5)]
					id = fmt.Sprintf("%011d%s", r.U64()%100000000000, suffix)
				}
				ids = append(ids, id)
				read := fmt.Sprintf("\x1b7\x07::TRZSZ:TRANSFER:S:1.1.5:%s:0\r\n", id)
				if _, ok := vfCheckDetectorRead(c, det, hist, []byte(read), relay, false); !ok {
					c.Replay(map[string]interface{}{"ids": ids, "relay": relay})
					return
				}
			}
			c.Obs("id_history_reads", 300)
			c.Obs("id_repeats_generated", int64(repeats))
			c.Nontrivial(fmt.Sprintf("hist#%d relay=%v repeats=%d", i, relay, repeats))
		}})
	}
	// the boundary of the id memory: n fresh ids (the memory is trimmed when the 102nd, 153rd ... arrives), then a redraw of
	// each of the 51 ids before the newest, newest first
	for _, nfresh := range []int{60, 101, 102, 103, 152, 153, 154, 204} {
		for _, relay := range []bool{false, true} {
			nfresh, relay := nfresh, relay
			cases = append(cases, vfCase{ID: fmt.Sprintf("%shistedge-%d-%v", tag, nfresh, relay), Run: func(c *vfCtx) {
				det := newTrzszDetector(relay, relay)
				hist := &vfIDHistory{}
				var ids []string
				feed := func(id string) bool {
					read := fmt.Sprintf("\x1b7\x07::TRZSZ:TRANSFER:R:1.1.5:%s:0\r\n", id)
					_, ok := vfCheckDetectorRead(c, det, hist, []byte(read), relay, false)
					return ok
				}
				for k := 0; k < nfresh; k++ {
					id := fmt.Sprintf("%011d%s", 70000000000+int64(k)*7919+int64(nfresh), []string{"20", "10"}[k%2])
					ids = append(ids, id)
					if !feed(id) {
						c.Replay(map[string]interface{}{"fresh": nfresh, "relay": relay, "at": k})
						return
					}
				}
				for d := 0; d <= 51 && d < len(ids); d++ {
					if !feed(ids[len(ids)-1-d]) {
						c.Replay(map[string]interface{}{"fresh": nfresh, "relay": relay, "redraw_of_id_this_many_back": d})
						return
					}
				}
				c.Obs("id_history_boundary_redraws", 52)
				c.Nontrivial(fmt.Sprintf("histedge fresh=%d relay=%v", nfresh, relay))
			}})
		}
	}
	// filter level: exactly one ACT per model-positive read, none per model-negative read
	nf := vfPick(20, 200)
	if vfWinEnv {
		nf = vfPick(4, 40)
	}
	for i := 0; i < nf; i++ {
		i := i
		cases = append(cases, vfCase{ID: fmt.Sprintf("%sfilter-%d", tag, i), Run: func(c *vfCtx) {
			r := c.R
			clientIn, serverOut := vfNewWire("ci"), vfNewWire("so")
			clientOut, serverIn := vfNewSink(), vfNewWire("si")
			go func() { // drain what the filter sends to the server
				buf := make([]byte, 4096)
				for {
					if _, err := serverIn.Read(buf); err != nil {
						return
					}
				}
			}()
			filter := NewTrzszFilter(clientIn, clientOut, vfWriterCloser{serverIn}, serverOut, TrzszOptions{TerminalColumns: 80})
			os.Unsetenv("VF_ZENITY") // the fake chooser answers "cancelled": ACT with confirm=false, handler ends at once
			hist := &vfIDHistory{}
			acts := 0
			pos, neg := 0, 0
			var fired []string // genuine reads that started a transfer: redrawn later, they must start none if their id is remembered
			for k := 0; k < 16; k++ {
				trg := vfGenTrigger(r, k)
				read := vfGenPrefix(r) + trg + vfGenSuffix(r)
				if r.Intn(2) == 0 {
					read = vfGenPrefix(r) + vfMutate(r, trg) + vfGenSuffix(r)
				}
				if k%4 == 1 { // a tmux / Windows style id, which the wrapper remembers
					read = fmt.Sprintf("\x1b7\x07::TRZSZ:TRANSFER:%s:1.1.5:%011d%s:0\r\n", []string{"R", "S", "D"}[r.Intn(3)], r.U64()%100000000000, []string{"20", "10"}[r.Intn(2)])
				}
				if strings.Contains(read, "%output") || strings.Contains(read, "\x03") {
					read = trg + "\r\n" // control-mode framing needs a tunnel; keep the filter-level reads plain
				}
				if len(fired) > 0 && k%4 == 3 {
					read = fired[r.Intn(len(fired))] // the screen is redrawn
				}
				verdict, _, _ := vfModelDetect([]byte(read), false, false, vfWinEnv, hist)
				if verdict == 1 {
					fired = append(fired, read)
				}
				before := len(serverIn.Msgs())
				outBefore := clientOut.Len()
				serverOut.WriteAtomic([]byte(read))
				// wait until the read came out at the terminal side
				deadline := time.Now().Add(10 * time.Second)
				for clientOut.Len() == outBefore && time.Now().Before(deadline) {
					time.Sleep(time.Millisecond)
				}
				if verdict == 1 {
					for time.Now().Before(deadline) {
						if len(serverIn.Msgs()) > before && !filter.IsTransferringFiles() && len(vfLeakedFrames(c.ID)) == 0 {
							break
						}
						time.Sleep(2 * time.Millisecond)
					}
				} else {
					time.Sleep(30 * time.Millisecond)
				}
				var got []string
				for _, m := range serverIn.Msgs()[before:] {
					got = append(got, m.Type)
				}
				if verdict == 1 {
					pos++
					if len(got) != 1 || got[0] != "ACT" {
						c.Viol("c06-filter-act-count", "genuine trigger read %q made the filter write %v to the server (expected exactly one ACT)", vfHead([]byte(read), 200), got)
						return
					}
					acts++
				} else if verdict == 0 {
					neg++
					if len(got) != 0 {
						c.Viol("c06-filter-spurious", "non-trigger read %q made the filter write %v to the server", vfHead([]byte(read), 200), got)
						return
					}
				}
			}
			serverOut.Close()
			clientIn.Close()
			c.Obs("filter_reads_positive", int64(pos))
			c.Obs("filter_reads_negative", int64(neg))
			if pos > 0 && neg > 0 {
				c.Nontrivial(fmt.Sprintf("filter#%d pos=%d neg=%d", i, pos, neg))
			}
			if i < 2 {
				c.Sample(map[string]interface{}{"level": "filter", "reads": 12, "genuine": pos, "look_alikes": neg, "acts_written": acts})
			}
		}})
	}
	vfRunCases(t, "C06", cases, 4, 120*time.Second)
}
