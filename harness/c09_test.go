//go:build verif

package trzsz

import (
	"bytes"
	"fmt"
	"os"
	"path/filepath"
	"regexp"
	"strings"
	"testing"
	"time"
)

type vfHostile struct {
	Name  string   `json:"name"`
	Rel   []string `json:"rel"`             // replacement RelPath
	Where string   `json:"where,omitempty"` // top, sub (entry below a directory), archive (entry header inside an archive stream)
}

func vfHostileNames(root string) []vfHostile {
	abs := filepath.Join(root, "sibling", "abs-planted.txt")
	long := strings.Repeat("L", 4096)
	return []vfHostile{
		{"dotdot-first", []string{"..", "planted.txt"}, ""},
		{"dotdot-only", []string{".."}, ""},
		{"dotdot-slash", []string{"../planted.txt"}, ""},
		{"dotdot-sibling", []string{"../sibling/victim.txt"}, ""},
		{"dotdot-mid", []string{"a", "..", "..", "planted.txt"}, ""},
		{"dotdot-mid-slash", []string{"a/../../planted.txt"}, ""},
		{"dotdot-last", []string{"a", ".."}, ""},
		{"dotdot-deep", []string{"..", "..", "planted2.txt"}, ""},
		{"embedded-slash", []string{"a/b/c.txt"}, ""},
		{"absolute", []string{abs}, ""},
		{"absolute-elem", []string{"a", abs}, ""},
		{"empty-elem", []string{"", "planted.txt"}, ""},
		{"empty-only", []string{""}, ""},
		{"dot", []string{"."}, ""},
		{"dot-elem", []string{".", "x.txt"}, ""},
		{"long-4k", []string{long}, ""},
		{"dotdot-long", []string{"..", long[:200]}, ""},
		{"dotdot-trailing-slash", []string{"../", "planted.txt"}, ""},
		{"dotdot-trailing-slashes", []string{"..//", "planted3.txt"}, ""},
		{"dotdot-trailing-slash-mid", []string{"top", "../", "../", "planted.txt"}, ""},
		{"dotdot-trailing-slash-only", []string{"../"}, ""},
		{"dot-trailing-slash", []string{"./", "..", "planted.txt"}, ""},
		{"dotdot-backslash", []string{"..\\", "planted.txt"}, ""},
		{"dotdot-space", []string{".. ", "planted.txt"}, ""},
		{"name-trailing-slash", []string{"x/"}, ""},
		{"slash-dotdot", []string{"/../planted.txt"}, ""},
		{"slash-dotdot-elems", []string{"a", "/..", "/..", "planted.txt"}, ""},
		{"slash-dotdot-dir", []string{"/../newdir", "f.txt"}, ""},
		{"slash-dotdot-deep", []string{"/../../planted2.txt"}, ""},
		{"slash-only", []string{"/"}, ""},
		{"slash-name", []string{"/planted-here.txt"}, ""},
		{"canary", []string{"..", "canary.txt"}, ""},
		{"outer-canary", []string{"..", "..", "outer.txt"}, ""},
	}
}

func TestVF_C09(t *testing.T) {
	var cases []vfCase
	names := vfHostileNames("ROOT")
	idx := 0
	for hi := range names {
		for _, dir := range []string{"up", "down"} {
			for _, overwrite := range []bool{false, true} {
				for _, directory := range []bool{false, true} {
					for _, where := range []string{"top", "sub", "archive"} {
						if !directory && where != "top" {
							continue
						}
						protos := []int{1, 2, 3, 4}
						if where == "archive" {
							if overwrite {
								continue // archive mode exists only without -y at protocol 4
							}
							protos = []int{4}
						}
						for _, proto := range protos {
							if !vfThorough() && (idx+hi)%3 != vfSeed%3 && where != "archive" {
								idx++
								continue
							}
							idx++
							hi, dir, overwrite, directory, where, proto := hi, dir, overwrite, directory, where, proto
							cases = append(cases, vfCase{ID: fmt.Sprintf("%s-%s-y%v-d%v-%s-p%d", names[hi].Name, dir, overwrite, directory, where, proto), Run: func(c *vfCtx) {
								root := filepath.Join(c.Dir, "root")
								h := vfHostileNames(root)[hi]
								vfC09Case(c, root, h, dir, overwrite, directory, where, proto)
							}})
						}
					}
				}
			}
		}
	}
	// names the real marshaller cannot produce: raw JSON path lists (escaped dots and separators) put
	// into the sender's NAME message on the wire
	raws := []struct{ name, json string }{
		{"esc-dotdot", `["\u002e\u002e","planted.txt"]`},
		{"esc-dotdot-mixed", `[".\u002e","planted.txt"]`},
		{"esc-dotdot-mid", `["a","\u002e\u002e","\u002e\u002e","planted.txt"]`},
		{"esc-slash", `["\u002e\u002e\u002fplanted.txt"]`},
		{"esc-slash-mid", `["a\u002f..\u002f..\u002fplanted.txt"]`},
		{"esc-abs", `["\u002ftmp\u002fvf-c09-abs-planted.txt"]`},
		{"esc-dotdot-sibling", `["\u002e\u002e","sibling","victim.txt"]`},
		{"dup-key", `["ok.txt"],"path_name":["..","planted.txt"]`},
		{"nested-array", `[["..","planted.txt"]]`},
		{"number-elem", `[1,"planted.txt"]`},
		{"null-elem", `[null,"..","planted.txt"]`},
	}
	for ri := range raws {
		for _, dir := range []string{"up", "down"} {
			for _, overwrite := range []bool{false, true} {
				for _, proto := range []int{2, 3, 4} {
					ri, dir, overwrite, proto := ri, dir, overwrite, proto
					if !vfThorough() && (ri+proto)%2 != vfSeed%2 {
						continue
					}
					cases = append(cases, vfCase{ID: fmt.Sprintf("raw-%s-%s-y%v-p%d", raws[ri].name, dir, overwrite, proto), Run: func(c *vfCtx) {
						vfC09RawCase(c, raws[ri].name, raws[ri].json, dir, overwrite, proto)
					}})
				}
			}
		}
	}
	vfRunCases(t, "C09", cases, 3, 300*time.Second)
}

var vfPathNameRe = regexp.MustCompile(`"path_name":\[[^\]]*\]`)

func vfC09RawCase(c *vfCtx, name, rawJSON, dir string, overwrite bool, proto int) {
	root := filepath.Join(c.Dir, "root")
	dst := filepath.Join(root, "dest")
	sib := filepath.Join(root, "sibling")
	src := filepath.Join(c.Dir, "src")
	os.MkdirAll(dst, 0755)
	os.MkdirAll(sib, 0755)
	os.MkdirAll(src, 0755)
	os.WriteFile(filepath.Join(sib, "victim.txt"), []byte("victim content, must survive"), 0644)
	os.WriteFile(filepath.Join(root, "canary.txt"), []byte("canary"), 0644)
	os.WriteFile(filepath.Join(src, "plain.txt"), []byte("hostile payload plain"), 0644)
	old := time.Now().Add(-time.Hour)
	os.Chtimes(filepath.Join(sib, "victim.txt"), old, old)
	cfg := vfCfg{Timeout: 5, Dir: dir, Overwrite: overwrite, Directory: true, Protocol: proto, Quiet: true, Direct: dir == "up"}
	before := vfSnapshotExcept(c.Dir, []string{filepath.Join("root", "dest"), "src"})
	os.Remove("/tmp/vf-c09-abs-planted.txt")
	hit := false
	mut := func(index int, typ string, line []byte) []byte {
		if typ != "NAME" || hit {
			return line
		}
		nl := "\n"
		body := bytes.TrimSuffix(line, []byte("\n"))
		dec, err := decodeString(string(body[6:]))
		if err != nil || !vfPathNameRe.Match(dec) {
			return line
		}
		hit = true
		dec = vfPathNameRe.ReplaceAll(dec, []byte(`"path_name":`+strings.ReplaceAll(rawJSON, "$", "$$")))
		return []byte("#NAME:" + encodeString(string(dec)) + nl)
	}
	c.Replay(map[string]interface{}{"cfg": cfg, "raw": rawJSON})
	s, so, co, fin := vfRunTransfer(c, cfg, []string{filepath.Join(src, "plain.txt")}, dst, 60*time.Second, func(s *vfSession) {
		if dir == "up" {
			s.cliW().SetMutator(mut)
		} else {
			s.srvW().SetMutator(mut)
		}
	})
	if !fin {
		return
	}
	s.Close()
	if !hit {
		c.Inconc("NAME message was not rewritten")
		return
	}
	after := vfSnapshotExcept(c.Dir, []string{filepath.Join("root", "dest"), "src"})
	class := "raw-" + name
	for k, e := range after {
		b, ok := before[k]
		if !ok {
			c.Viol("c09-created-outside:"+class, "receiving created %q outside the destination directory (raw JSON path list %s, overwrite=%v protocol %d, %s)", k, rawJSON, overwrite, proto, dir)
			return
		}
		if b.Type != e.Type || b.Size != e.Size || b.Hash != e.Hash || (e.Type == "f" && b.Mtime != e.Mtime) {
			c.Viol("c09-modified-outside:"+class, "receiving modified %q outside the destination directory (raw JSON path list %s)", k, rawJSON)
			return
		}
	}
	if _, err := os.Stat("/tmp/vf-c09-abs-planted.txt"); err == nil {
		os.Remove("/tmp/vf-c09-abs-planted.txt")
		c.Viol("c09-created-outside:"+class, "receiving created /tmp/vf-c09-abs-planted.txt from an escaped absolute path")
		return
	}
	_ = so
	_ = co
	c.SetAdd("name_shapes", class)
	c.Obs("raw_json_names", 1)
	c.Nontrivial(fmt.Sprintf("raw %s %s y%v p%d", name, dir, overwrite, proto))
}

func vfC09Case(c *vfCtx, root string, h vfHostile, dir string, overwrite, directory bool, where string, proto int) {
	dst := filepath.Join(root, "dest")
	sib := filepath.Join(root, "sibling")
	src := filepath.Join(c.Dir, "src")
	os.MkdirAll(dst, 0755)
	os.MkdirAll(sib, 0755)
	os.WriteFile(filepath.Join(sib, "victim.txt"), []byte("victim content, must survive"), 0644)
	os.WriteFile(filepath.Join(root, "canary.txt"), []byte("canary"), 0644)
	os.WriteFile(filepath.Join(c.Dir, "outer.txt"), []byte("outer canary"), 0644)
	os.WriteFile(filepath.Join(dst, "existing.txt"), []byte("already in dest"), 0644)
	// source: a plain file, or a directory with two entries
	var paths []string
	if directory {
		os.MkdirAll(filepath.Join(src, "proj", "a"), 0755)
		os.WriteFile(filepath.Join(src, "proj", "a", "inner.txt"), []byte("hostile payload inner"), 0644)
		os.WriteFile(filepath.Join(src, "proj", "top.txt"), []byte("hostile payload top"), 0644)
		paths = []string{filepath.Join(src, "proj")}
	} else {
		os.MkdirAll(src, 0755)
		os.WriteFile(filepath.Join(src, "plain.txt"), []byte("hostile payload plain"), 0644)
		paths = []string{filepath.Join(src, "plain.txt")}
	}
	old := time.Now().Add(-time.Hour)
	for _, p := range []string{filepath.Join(sib, "victim.txt"), filepath.Join(root, "canary.txt"), filepath.Join(c.Dir, "outer.txt"), filepath.Join(dst, "existing.txt")} {
		os.Chtimes(p, old, old)
	}
	cfg := vfCfg{Timeout: 20, Dir: dir, Overwrite: overwrite, Directory: directory, Protocol: proto, Quiet: true, Direct: dir == "up"}
	outsideBefore := vfSnapshotExcept(c.Dir, []string{filepath.Join("root", "dest"), "src"})
	applied := false
	doctor := func(files []*sourceFile) []*sourceFile {
		for _, f := range files {
			switch where {
			case "top":
				if len(f.RelPath) == 1 && !applied {
					f.RelPath = append([]string(nil), h.Rel...)
					applied = true
				}
			case "sub", "archive":
				// a regular file below the top-level directory
				if len(f.RelPath) > 1 && !f.IsDir && !applied {
					f.RelPath = append([]string{f.RelPath[0]}, h.Rel...)
					if where == "archive" {
						f.RelPath = append([]string(nil), h.Rel...) // entry header with a free-standing path
					}
					applied = true
				}
			}
		}
		return files
	}
	c.Replay(map[string]interface{}{"cfg": cfg, "hostile": h, "where": where})
	s, so, co, fin := vfRunTransfer(c, cfg, paths, dst, 90*time.Second, func(s *vfSession) { s.doctor = doctor })
	if !fin {
		return
	}
	s.Close()
	if !applied {
		c.Inconc("hostile record was not applied")
		return
	}
	outsideAfter := vfSnapshotExcept(c.Dir, []string{filepath.Join("root", "dest"), "src"})
	class := fmt.Sprintf("%s/%s/y%v/d%v", h.Name, where, overwrite, directory)
	for k, e := range outsideAfter {
		b, ok := outsideBefore[k]
		if !ok {
			c.Viol("c09-created-outside:"+class, "receiving created %q outside the destination directory (name %q, %s, overwrite=%v directory=%v protocol %d, receiver=%s); server=%s client=%s", k, h.Rel, where, overwrite, directory, proto, map[string]string{"up": "server", "down": "client"}[dir], so.Kind, co.Kind)
			return
		}
		if b.Type != e.Type || b.Size != e.Size || b.Hash != e.Hash || (e.Type == "f" && b.Mtime != e.Mtime) {
			c.Viol("c09-modified-outside:"+class, "receiving modified %q outside the destination directory (name %q, %s, overwrite=%v directory=%v protocol %d)", k, h.Rel, where, overwrite, directory, proto)
			return
		}
	}
	for k := range outsideBefore {
		if _, ok := outsideAfter[k]; !ok {
			c.Viol("c09-removed-outside:"+class, "receiving removed %q outside the destination directory (name %q)", k, h.Rel)
			return
		}
	}
	// every reported path must resolve inside the destination
	for _, n := range vfReportedNames(cfg, so, co) {
		p := filepath.Clean(filepath.Join(dst, n))
		if p != dst && !strings.HasPrefix(p, dst+string(os.PathSeparator)) || p == dst {
			if so.Kind == "success" || co.Kind == "success" {
				c.Viol("c09-reported-outside:"+class, "reported name %q resolves to %q, not inside the destination %q", n, p, dst)
				return
			}
		}
	}
	outcome := "refused"
	if so.Kind == "success" && co.Kind == "success" {
		outcome = "stored-inside"
	}
	c.Obs("hostile_names_"+outcome, 1)
	c.SetAdd("name_shapes", h.Name+"/"+where)
	c.Nontrivial(fmt.Sprintf("%s %s y%v d%v %s p%d -> %s", h.Name, dir, overwrite, directory, where, proto, outcome))
	if strings.HasPrefix(h.Name, "dotdot-first") && where == "top" && proto == 4 {
		c.Sample(map[string]interface{}{"hostile_rel_path": h.Rel, "where": where, "dir": dir, "overwrite": overwrite, "directory": directory, "protocol": proto, "outcome": outcome, "server": vfClip(so.Text), "client": vfClip(co.Text)})
	}
}

// vfSnapshotExcept snapshots root but skips the listed relative subtrees.
func vfSnapshotExcept(root string, skip []string) vfTree {
	t := vfSnapshot(root)
	for k := range t {
		for _, s := range skip {
			if k == s || strings.HasPrefix(k, s+string(os.PathSeparator)) {
				delete(t, k)
			}
		}
	}
	return t
}
