//go:build verif

package trzsz

import (
	"bytes"
	"fmt"
	"io"
	"net"
	"os"
	"path/filepath"
	"strconv"
	"strings"
	"sync"
	"sync/atomic"
	"testing"
	"time"
)

type vfProbeConn struct {
	Kind     string `json:"kind"`
	Sent     int    `json:"sent"`
	Received []byte `json:"-"`
	RecvLen  int    `json:"received"`
	Closed   bool   `json:"closed_by_server"`
	DialErr  bool   `json:"dial_refused"`
	// twin-right-greeting only: the server side of this connection read what was sent after the greeting
	Consumed bool `json:"bytes_after_greeting_read_by_server"`
	RxQueue  int  `json:"unread_bytes_at_server"`
}

// vfServerRxQueue returns the number of bytes the kernel holds unread for the server-side socket of the
// loopback connection (serverPort <- clientPort), or -1 when that socket no longer exists.
func vfServerRxQueue(serverPort, clientPort int) int {
	b, err := os.ReadFile("/proc/net/tcp")
	if err != nil {
		return -1
	}
	for _, l := range strings.Split(string(b), "\n")[1:] {
		f := strings.Fields(l)
		if len(f) < 5 {
			continue
		}
		la, ra := strings.Split(f[1], ":"), strings.Split(f[2], ":")
		if len(la) != 2 || len(ra) != 2 {
			continue
		}
		lp, _ := strconv.ParseInt(la[1], 16, 32)
		rp, _ := strconv.ParseInt(ra[1], 16, 32)
		if int(lp) != serverPort || int(rp) != clientPort {
			continue
		}
		q := strings.Split(f[4], ":")
		if len(q) != 2 {
			continue
		}
		rx, _ := strconv.ParseInt(q[1], 16, 64)
		return int(rx)
	}
	return -1
}

// vfAttackTunnel opens one probing connection of the given kind against the tunnel port.
// hello is the genuine client greeting for this transfer.
func vfAttackTunnel(port int, kind string, hello string, hold time.Duration, waitAdopted func()) *vfProbeConn {
	p := &vfProbeConn{Kind: kind}
	conn, err := net.DialTimeout("tcp", fmt.Sprintf("127.0.0.1:%d", port), time.Second)
	if err != nil {
		p.DialErr = true
		return p
	}
	defer conn.Close()
	send := func(b string) {
		n, _ := conn.Write([]byte(b))
		p.Sent += n
	}
	switch kind {
	case "wrong-greeting":
		send("::TRZSZ::CLIENT::HELLO::0000000000000:1")
	case "prefix-wrong-id":
		send(hello[:len(hello)-3] + "9:1")
	case "greeting-plus-junk":
		send(hello + "x")
	case "greeting-truncated":
		send(hello[:len(hello)-1])
	case "server-greeting":
		send(strings.Replace(hello, "CLIENT", "SERVER", 1))
	case "flood":
		send("#fail:" + encodeString("injected failure") + "\n")
		for i := 0; i < 20; i++ {
			send("#DATA:" + encodeString(strings.Repeat("evil", 100)) + "\n#SUCC:1\n#EXIT:" + encodeString("Saved 9 files") + "\n")
		}
	case "silent":
	case "split-greeting":
		send(hello[:10])
		time.Sleep(30 * time.Millisecond)
		send(hello[10:])
	case "late-right-greeting":
		// connected (and accepted) early, but the right greeting is only presented once the genuine
		// connection has been adopted: it must not be adopted as well
		waitAdopted()
		time.Sleep(20 * time.Millisecond)
		send(hello)
		time.Sleep(20 * time.Millisecond)
		send("#fail:" + encodeString("injected by the second connection") + "\n")
		send("#FAIL:" + encodeString("injected by the second connection") + "\n")
	case "twin-right-greeting":
		// a second connection that knows the greeting and presents it at the same moment as the genuine one
		// (waitAdopted here waits for the genuine dial to return): at most one of the two may be adopted.
		// What it sends afterwards is a fail line; whether the server read it is taken from the kernel's
		// receive queue of the server-side socket.
		waitAdopted()
		for t0, d := time.Now(), time.Duration(time.Now().UnixNano()%300)*time.Microsecond; time.Since(t0) < d; {
		}
		send(hello)
		time.Sleep(150 * time.Millisecond)
		send("#fail:" + encodeString("injected by the twin connection") + "\n")
		time.Sleep(400 * time.Millisecond)
		lp := conn.LocalAddr().(*net.TCPAddr).Port
		p.RxQueue = vfServerRxQueue(port, lp)
		p.Consumed = p.RxQueue == 0
	case "right-greeting":
		send(hello)
		time.Sleep(20 * time.Millisecond)
		send("#fail:" + encodeString("injected by the second connection") + "\n")
	}
	conn.SetReadDeadline(time.Now().Add(hold))
	buf := make([]byte, 4096)
	for {
		n, err := conn.Read(buf)
		p.Received = append(p.Received, buf[:n]...)
		if err != nil {
			if ne, ok := err.(net.Error); ok && ne.Timeout() {
				p.Closed = false
			} else if err == io.EOF || strings.Contains(err.Error(), "reset") || strings.Contains(err.Error(), "closed") {
				p.Closed = true
			}
			break
		}
		if len(p.Received) > 1<<20 {
			break
		}
	}
	p.RecvLen = len(p.Received)
	return p
}

// vfSlowAnswerConn delivers what the server answers only after a delay (first read): the client's grace period is over by then.
type vfSlowAnswerConn struct {
	net.Conn
	delay time.Duration
	once  sync.Once
}

func (v *vfSlowAnswerConn) Read(p []byte) (int, error) {
	v.once.Do(func() { time.Sleep(v.delay) })
	return v.Conn.Read(p)
}

// vfSplitConn sends the first write (the greeting) in two pieces.
type vfSplitConn struct {
	net.Conn
	done bool
}

func (v *vfSplitConn) Write(p []byte) (int, error) {
	if v.done || len(p) < 12 {
		return v.Conn.Write(p)
	}
	v.done = true
	if _, err := v.Conn.Write(p[:10]); err != nil {
		return 0, err
	}
	time.Sleep(30 * time.Millisecond)
	n, err := v.Conn.Write(p[10:])
	return 10 + n, err
}

type vfTunnelPlan struct {
	Relay     string   `json:"relay_connector,omitempty"` // with one relay in the path: ok, nil, dead, banner, silent
	Attackers []string `json:"attackers"`
	When      string   `json:"when"`      // before (the genuine dial), between (dial and greeting), after (adoption), racing
	Connector string   `json:"connector"` // ok, nil, dead, late-500, late-900, late-1100, late-3000
	Inband    bool     `json:"inband_garbage"`
}

func TestVF_C17(t *testing.T) {
	ytag := ""
	if y := vfInstallYieldPlan(); y != "off" {
		ytag = "y-" + strings.ReplaceAll(y, ":", "_") + "-"
		// in the perturbed family every synchronisation point of the adoption path (the per-connection goroutine
		// of acceptOnTunnel) is additionally held for 1 ms: two greetings arriving together overlap there
		if pl := vfPlan.Load(); pl != nil {
			pl.slow = map[int]time.Duration{}
			for n, pt := range vfLoadPoints() {
				if pt[0] == "transfer.go" && strings.HasPrefix(pt[2], "trzszTransfer.acceptOnTunnel.func.func") {
					pl.slow[n] = time.Millisecond
				}
			}
		}
	}
	var cases []vfCase
	// (a greeting split across two writes by somebody who knows it is tried through the genuine connector, see "split")
	attackKinds := []string{"wrong-greeting", "prefix-wrong-id", "greeting-plus-junk", "greeting-truncated", "server-greeting", "flood", "silent"}
	whens := []string{"before", "between", "after", "racing"}
	n := 0
	for _, dir := range []string{"up", "down"} {
		for wi, when := range whens {
			for ai := range attackKinds {
				for rep := 0; rep < vfPick(1, 8); rep++ {
					n++
					dir, when, ai, rep, nn := dir, when, ai, rep, n
					cases = append(cases, vfCase{ID: fmt.Sprintf("%satk-%s-%s-%s-%d", ytag, dir, when, attackKinds[ai], rep), Run: func(c *vfCtx) {
						plan := vfTunnelPlan{When: when, Connector: "ok", Inband: nn%2 == 0}
						plan.Attackers = []string{attackKinds[ai], attackKinds[(ai+3+wi+rep)%len(attackKinds)]}
						if when == "after" && rep%2 == 0 {
							plan.Attackers = append(plan.Attackers, "right-greeting")
						}
						if (when == "before" || when == "between") && nn%2 == 1 {
							plan.Attackers = append(plan.Attackers, "late-right-greeting")
						}
						if nn%5 == 0 {
							for k := 0; k < 40; k++ {
								plan.Attackers = append(plan.Attackers, attackKinds[k%6])
							}
						}
						vfTunnelCase(c, dir, plan)
					}})
				}
			}
		}
		for rep := 0; rep < vfPick(8, 60); rep++ {
			dir, rep := dir, rep
			cases = append(cases, vfCase{ID: fmt.Sprintf("%stwin-%s-%d", ytag, dir, rep), Run: func(c *vfCtx) {
				vfTunnelCase(c, dir, vfTunnelPlan{When: "racing", Connector: "ok", Attackers: []string{"twin-right-greeting"}})
			}})
		}
		for _, conn := range []string{"nil", "dead", "late-500", "late-900", "late-1100", "late-3000", "split", "split", "answer-late", "foreign-banner", "foreign-echo", "foreign-wrong-id"} {
			for rep := 0; rep < vfPick(2, 10); rep++ {
				dir, conn, rep := dir, conn, rep
				cases = append(cases, vfCase{ID: fmt.Sprintf("%sconn-%s-%s-%d", ytag, dir, conn, rep), Run: func(c *vfCtx) {
					vfTunnelCase(c, dir, vfTunnelPlan{Connector: conn, Inband: rep%2 == 0})
				}})
			}
		}
	}
	// one relay in the path; what the relay's own connector towards the server returns varies
	for _, dir := range []string{"up", "down"} {
		for _, rc := range []string{"ok", "nil", "dead", "banner", "silent", "late-ok"} {
			for rep := 0; rep < vfPick(2, 8); rep++ {
				dir, rc, rep := dir, rc, rep
				cases = append(cases, vfCase{ID: fmt.Sprintf("%srelay-%s-%s-%d", ytag, dir, rc, rep), Run: func(c *vfCtx) {
					vfTunnelCase(c, dir, vfTunnelPlan{Connector: "ok", Relay: rc, Inband: false})
				}})
			}
		}
	}
	vfRunCases(t, "C17", cases, 6, 240*time.Second)
}

// vfFakeServer listens on loopback and answers every connection with banner (or nothing).
func vfFakeServer(banner string) (net.Listener, int) {
	l, err := net.Listen("tcp", "127.0.0.1:0")
	if err != nil {
		return nil, 0
	}
	go func() {
		for {
			conn, err := l.Accept()
			if err != nil {
				return
			}
			go func(conn net.Conn) {
				if banner != "" {
					conn.Write([]byte(banner))
				}
				buf := make([]byte, 256)
				for {
					if _, err := conn.Read(buf); err != nil {
						conn.Close()
						return
					}
				}
			}(conn)
		}
	}()
	return l, l.Addr().(*net.TCPAddr).Port
}

func vfTunnelCase(c *vfCtx, dir string, plan vfTunnelPlan) {
	r := c.R
	src := filepath.Join(c.Dir, "src")
	dst := filepath.Join(c.Dir, "dst")
	os.MkdirAll(dst, 0755)
	specs := []vfFileSpec{{Rel: "a.bin", Size: r.PickInt(3000, 90000, 400000), Content: "rand"}, {Rel: "b.txt", Size: 700, Content: "text"}}
	if err := vfWriteTree(src, specs, vfNewRand(c.ID, "src")); err != nil {
		c.Inconc("%v", err)
		return
	}
	tops := []string{"a.bin", "b.txt"}
	paths := []string{filepath.Join(src, "a.bin"), filepath.Join(src, "b.txt")}
	cfg := vfCfg{Dir: dir, Tunnel: true, Timeout: 20, Quiet: r.Intn(2) == 0, Bufsize: int64(r.PickInt(4096, 1<<20)), Protocol: r.PickInt(0, 0, 2)}
	if plan.Relay != "" {
		cfg.Relays = 1
	}
	c.Replay(map[string]interface{}{"cfg": cfg, "plan": plan})
	s := vfNewSession(c, cfg)
	if plan.Relay != "" && plan.Relay != "ok" {
		var fake net.Listener
		fakePort := 0
		switch plan.Relay {
		case "banner":
			fake, fakePort = vfFakeServer("SSH-2.0-OpenSSH_9.2\r\n")
		case "silent":
			fake, fakePort = vfFakeServer("")
		}
		if fake != nil {
			defer fake.Close()
		}
		s.relayTunnelHook = func(port int, dial func() net.Conn) net.Conn {
			switch plan.Relay {
			case "late-ok":
				// the relay's connector reaches the genuine server, but only after 3 s: the client (whose ACT is held
				// back for 4 s, as if the user were still choosing) has long decided to go on in-band
				time.Sleep(3 * time.Second)
				return dial()
			case "nil":
				return nil
			case "dead":
				a, b := net.Pipe()
				b.Close()
				return a
			default: // something that is not the trz/tsz of this transfer answers on the server side
				conn, err := net.DialTimeout("tcp", fmt.Sprintf("127.0.0.1:%d", fakePort), time.Second)
				if err != nil {
					return nil
				}
				return conn
			}
		}
	}
	if plan.Relay == "late-ok" {
		var once sync.Once
		s.cliW().SetGate(func(ev vfGateEvent) {
			if ev.Before && ev.Type == "ACT" {
				once.Do(func() { time.Sleep(4 * time.Second) })
			}
		})
	}
	var mu sync.Mutex
	var probes []*vfProbeConn
	var wg sync.WaitGroup
	hello := ""
	started := make(chan struct{})
	adopted := func() bool {
		select {
		case <-started:
			return s.st.tunnelConn.Load() != nil
		default:
			return false
		}
	}
	genuineDialed := make(chan struct{})
	var twinConsumed atomic.Bool
	attack := func(port int, hold time.Duration) {
		for _, k := range plan.Attackers {
			k := k
			wg.Add(1)
			go func() {
				defer wg.Done()
				wait := func() {
					for dl := time.Now().Add(5 * time.Second); !adopted() && time.Now().Before(dl); {
						time.Sleep(time.Millisecond)
					}
				}
				if k == "twin-right-greeting" {
					wait = func() {
						select {
						case <-genuineDialed:
						case <-time.After(5 * time.Second):
						}
					}
				}
				p := vfAttackTunnel(port, k, hello, hold, wait)
				if p.Consumed {
					twinConsumed.Store(true)
				}
				mu.Lock()
				probes = append(probes, p)
				mu.Unlock()
			}()
		}
	}
	s.tunnelHook = func(port int, dial func() net.Conn) net.Conn {
		hello, _ = getHelloConstant(s.uniqueID, port)
		switch plan.Connector {
		case "nil":
			return nil
		case "dead":
			a, b := net.Pipe()
			b.Close()
			return a
		case "split":
			conn := dial()
			if conn == nil {
				return nil
			}
			return &vfSplitConn{Conn: conn}
		case "foreign-banner", "foreign-echo", "foreign-wrong-id":
			// the connector lands on something that is not the server of this transfer: whatever it answers, the
			// client must not take it for the tunnel (it goes on in-band)
			l, err := net.Listen("tcp", "127.0.0.1:0")
			if err != nil {
				return nil
			}
			kind := plan.Connector
			go func() {
				defer l.Close()
				conn, err := l.Accept()
				if err != nil {
					return
				}
				defer conn.Close()
				buf := make([]byte, 4096)
				n, _ := conn.Read(buf)
				switch kind {
				case "foreign-banner":
					conn.Write([]byte("SSH-2.0-OpenSSH_9.2p1\r\n"))
				case "foreign-echo":
					conn.Write(buf[:n])
				default:
					conn.Write([]byte("::TRZSZ::SERVER::HELLO::00000000000:1"))
				}
				conn.SetReadDeadline(time.Now().Add(8 * time.Second))
				for {
					if _, err := conn.Read(buf); err != nil {
						return
					}
				}
			}()
			conn, err := net.DialTimeout("tcp", l.Addr().String(), time.Second)
			if err != nil {
				return nil
			}
			return &vfTapConn{conn, s.tunOut, s.tunIn}
		case "answer-late":
			// the greeting goes out at once and the server adopts the connection, but its answer reaches the client
			// after the grace period: the client goes on in-band, and so must the server
			conn := dial()
			if conn == nil {
				return nil
			}
			return &vfSlowAnswerConn{Conn: conn, delay: 1700 * time.Millisecond}
		case "late-500", "late-900", "late-1100", "late-3000":
			var ms int
			fmt.Sscanf(plan.Connector, "late-%d", &ms)
			time.Sleep(time.Duration(ms) * time.Millisecond)
			return dial()
		}
		switch plan.When {
		case "before":
			attack(port, 4000*time.Millisecond)
			time.Sleep(30 * time.Millisecond)
			return dial()
		case "between":
			conn := dial()
			attack(port, 4000*time.Millisecond)
			time.Sleep(30 * time.Millisecond)
			return conn
		case "racing":
			attack(port, 4000*time.Millisecond)
			if len(plan.Attackers) > 0 && plan.Attackers[0] == "twin-right-greeting" {
				time.Sleep(20 * time.Millisecond) // the twin is connected and waiting
			}
			conn := dial()
			close(genuineDialed)
			return conn
		default: // after adoption
			conn := dial()
			go func() {
				for dl := time.Now().Add(5 * time.Second); !adopted() && time.Now().Before(dl); {
					time.Sleep(time.Millisecond)
				}
				attack(port, 800*time.Millisecond)
			}()
			return conn
		}
	}
	// in-band garbage once the tunnel is agreed: injected into both terminal directions
	garbageDone := make(chan struct{})
	go func() {
		defer close(garbageDone)
		if !plan.Inband {
			return
		}
		<-started
		// "the tunnel is agreed" is visible from outside once the client's ACT went into the tunnel
		for dl := time.Now().Add(8 * time.Second); time.Now().Before(dl); {
			agreed := false
			for _, m := range s.tunOut.Msgs() {
				if m.Type == "ACT" && m.End > 0 {
					agreed = true
				}
			}
			if agreed {
				break
			}
			select {
			case <-s.srvDone:
				return // the transfer ended without a tunnel: in-band bytes are the transfer itself
			default:
			}
			time.Sleep(2 * time.Millisecond)
		}
		agreed := false
		for _, m := range s.tunOut.Msgs() {
			if m.Type == "ACT" && m.End > 0 {
				agreed = true
			}
		}
		if !agreed {
			return // no tunnel was agreed: injecting protocol lines in-band would legitimately end the transfer
		}
		c.Obs("inband_garbage_injected_with_tunnel_agreed", 1)
		for i := 0; i < 5; i++ {
			s.srvW().Write([]byte("#fail:" + encodeString("in-band garbage") + "\n#DATA:zzz\n"))
			s.clientIn.WriteAtomic([]byte("x"))
			time.Sleep(5 * time.Millisecond)
		}
	}()
	srcTree := vfSnapshot(src)
	t0 := time.Now()
	s.Start(paths, dst)
	close(started)
	okS, okC := false, false
	for dl := time.Now().Add(90 * time.Second); time.Now().Before(dl); {
		if okS = s.WaitServer(100 * time.Millisecond); okS {
			break
		}
		if twinConsumed.Load() {
			break
		}
	}
	isTwin := len(plan.Attackers) > 0 && plan.Attackers[0] == "twin-right-greeting"
	if isTwin && okS && !twinConsumed.Load() {
		// the server may already have returned because of the twin's fail line (its socket is then gone)
		if so := s.ServerOutcome(); strings.Contains(so.Text, "injected by the twin connection") {
			twinConsumed.Store(true)
		}
	}
	if twinConsumed.Load() {
		// the server adopted the twin: was the genuine connection adopted as well, i.e. did the server also
		// read the client's ACT (it then answers with its CFG on whichever connection it writes to)?
		time.Sleep(300 * time.Millisecond)
		wg.Wait()
		cfgSeen := ""
		for _, w := range []*vfWire{s.tunIn, s.srvW()} {
			for _, m := range w.Msgs() {
				if m.Type == "CFG" {
					cfgSeen = "the server's CFG went to " + w.name
				}
			}
		}
		mu.Lock()
		for _, p := range probes {
			if p.Kind == "twin-right-greeting" && bytes.Contains(p.Received, []byte("#CFG:")) {
				cfgSeen = "the server's CFG went to the twin connection"
			}
		}
		mu.Unlock()
		actInTunnel := false
		for _, m := range s.tunOut.Msgs() {
			if m.Type == "ACT" && m.End > 0 {
				actInTunnel = true
			}
		}
		if actInTunnel {
			c.Obs("twin_adopted_and_client_act_in_tunnel", 1)
		}
		if cfgSeen != "" {
			c.Obs("twin_adopted_and_cfg_seen", 1)
		}
		if !actInTunnel {
			cfgSeen = "" // the client went on in-band (its own connection was not answered): the ACT did not come through the genuine connection
		}
		s.Close()
		s.WaitServer(20 * time.Second)
		s.WaitClient(20 * time.Second)
		if cfgSeen != "" {
			c.Viol("c17-two-connections-adopted", "plan %+v: a second connection presenting the right greeting at the same moment as the genuine one was adopted (the server read the fail line it sent afterwards) although the genuine connection was adopted too (the client's ACT went into its tunnel connection and the server read it: %s)", plan, cfgSeen)
			return
		}
		// the twin alone was adopted: somebody who knows the id connected first (outside the property)
		c.Obs("twin_connection_won_the_race", 1)
		c.Nontrivial(fmt.Sprintf("%s %s twin adopted alone", c.ID, dir))
		return
	}
	if okS {
		okC = s.WaitClient(90 * time.Second)
	}
	if !okS || !okC {
		c.Slow("c17-not-finished", "plan %+v: server done=%v client done=%v within 90 s", plan, okS, okC)
		s.Close()
		return
	}
	wg.Wait()
	<-garbageDone
	so, co := s.ServerOutcome(), s.ClientOutcome()
	dstTree := vfSnapshot(dst)
	tunnelUsed := s.st.tunnelConnected
	inbandAfterAct := int64(0)
	for _, m := range s.cliW().Msgs() {
		if m.Type != "" && m.Type != "?" {
			inbandAfterAct += m.End - m.Start
		}
	}
	s.Close()
	// (1)/(2) per probing connection
	mu.Lock()
	ps := append([]*vfProbeConn(nil), probes...)
	mu.Unlock()
	helloReplies := 0
	for _, p := range ps {
		if p.DialErr {
			c.Obs("probes_refused_listener_closed", 1)
			continue
		}
		switch p.Kind {
		case "twin-right-greeting":
			// not adopted (its fail line was never read): it may have been answered, it must not see protocol bytes
			if bytes.Contains(p.Received, []byte("#")) {
				c.Viol("c17-second-connection-got-protocol-bytes", "the twin connection was not adopted (unread bytes at the server: %d) yet received protocol bytes %q", p.RxQueue, vfHead(p.Received, 80))
				return
			}
			c.Obs("twin_connection_not_adopted", 1)
		case "right-greeting", "late-right-greeting":
			// arrives after adoption: must not be adopted; whatever it receives must not be transfer data
			if bytes.Contains(p.Received, []byte("#")) {
				c.Viol("c17-second-connection-got-protocol-bytes", "a second connection with the right greeting received protocol bytes %q", vfHead(p.Received, 80))
				return
			}
			if p.RecvLen > 0 {
				helloReplies++
			}
		case "silent":
			if p.RecvLen != 0 {
				c.Viol("c17-answered-silent", "a connection that said nothing received %d bytes: %q", p.RecvLen, vfHead(p.Received, 60))
				return
			}
		case "split-greeting":
			// either taken as genuine (greeting arrived coalesced) or no answer and closed
			if p.RecvLen != 0 && !bytes.HasPrefix(p.Received, []byte("::TRZSZ::SERVER::HELLO::")) {
				c.Viol("c17-answered-split", "split greeting got an unexpected answer %q", vfHead(p.Received, 60))
				return
			}
			if p.RecvLen == 0 && !p.Closed {
				c.Viol("c17-not-closed:"+p.Kind, "a connection with a partial greeting got no answer but was not closed either")
				return
			}
		default:
			if p.RecvLen != 0 {
				c.Viol("c17-answered:"+p.Kind, "a connection presenting %q (not the greeting) received %d bytes: %q", p.Kind, p.RecvLen, vfHead(p.Received, 60))
				return
			}
			if !p.Closed {
				c.Slow("c17-not-closed:"+p.Kind, "a connection presenting %q (not the greeting) was not closed within the time it was held open", p.Kind)
				return
			}
		}
		c.Obs("probing_connections_checked", 1)
	}
	// the genuine transfer: same result as without attackers
	if so.Kind != "success" || co.Kind != "success" {
		if vfIsTimeoutText(so.Text) || vfIsTimeoutText(co.Text) {
			c.Slow("c17-transfer-timeout", "plan %+v: server=%q client=%q", plan, vfClip(so.Text), vfClip(co.Text))
		} else {
			c.Viol("c17-transfer-failed:"+vfErrClass(so.Text+"|"+co.Text), "plan %+v: the genuine transfer failed: server=%s/%q client=%s/%q (tunnel used: %v)", plan, so.Kind, vfClip(so.Text), co.Kind, vfClip(co.Text), tunnelUsed)
		}
		return
	}
	names := vfReportedNames(cfg, so, co)
	if len(names) != len(tops) {
		c.Viol("c17-name-count", "names %q", names)
		return
	}
	for i, top := range tops {
		if d := vfTreeSubEqual(srcTree, top, dstTree, names[i]); d != "" {
			c.Viol("c17-result-differs", "plan %+v: %s", plan, d)
			return
		}
	}
	// (3) agreement: tunnel in use <=> the client wrote nothing but the ... in-band after the trigger
	if plan.Relay != "" && plan.Relay != "ok" && tunnelUsed {
		c.Viol("c17-tunnel-used-without-server", "plan %+v: the relay could not reach the genuine server over its tunnel connector, yet the transfer says the tunnel is connected", plan)
		return
	}
	switch plan.Connector {
	case "ok", "late-500":
		if !tunnelUsed {
			// falling back in-band when the greeting exchange took longer than the grace period is what the
			// property allows; under 40 simultaneous probing connections and load it happens: recorded
			c.Obs("fallback_despite_timely_connector", 1)
		}
	case "nil", "dead", "late-3000", "answer-late", "foreign-banner", "foreign-echo", "foreign-wrong-id":
		if tunnelUsed {
			c.Viol("c17-tunnel-used-unexpectedly", "plan %+v: no tunnel could be established in time, yet the server says the tunnel is connected", plan)
			return
		}
	}
	if tunnelUsed && inbandAfterAct > 0 {
		c.Viol("c17-inband-bytes-with-tunnel", "the tunnel is in use but the client wrote %d protocol bytes in-band", inbandAfterAct)
		return
	}
	c.Obs("transfers_verified", 1)
	if tunnelUsed {
		c.Obs("transfers_over_tunnel", 1)
	} else {
		c.Obs("transfers_in_band_fallback", 1)
	}
	c.Obs("elapsed_ms", time.Since(t0).Milliseconds())
	c.Nontrivial(fmt.Sprintf("%s %s %s %v conn=%s inband=%v", c.ID, dir, plan.When, plan.Attackers[:vfMin(3, len(plan.Attackers))], plan.Connector, plan.Inband))
	c.SetAdd("attack_orders", plan.When+"/"+plan.Connector)
	if strings.HasSuffix(c.ID, "-0") && (strings.Contains(c.ID, "flood") || strings.Contains(c.ID, "late-900")) {
		var pp []vfProbeConn
		for _, p := range ps[:vfMin(4, len(ps))] {
			pp = append(pp, *p)
		}
		c.Sample(map[string]interface{}{"plan": plan, "probing_connections": pp, "tunnel_used": tunnelUsed, "second_connections_answered_with_hello": helloReplies})
	}
}
