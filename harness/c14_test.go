//go:build verif

package trzsz

import (
	"bytes"
	"encoding/json"
	"fmt"
	"net"
	"os"
	"path/filepath"
	"reflect"
	"strings"
	"testing"
	"time"
)

// vfFirstLine returns the first complete line of the given type on a wire tap (after offset from).
func vfLineOfType(w *vfWire, typ string, fromMsg int) (string, int) {
	tap := w.Tap()
	msgs := w.Msgs()
	for i := fromMsg; i < len(msgs); i++ {
		m := msgs[i]
		if m.Type == typ && m.End > 0 {
			line := bytes.TrimRight(tap[m.Start:m.End], "\n")
			line = bytes.TrimSuffix(line, []byte("!"))
			return string(line), i
		}
	}
	return "", -1
}

// vfFindLine scans raw tap bytes from offset from for the first line starting with marker.
func vfFindLine(w *vfWire, from int64, marker string) string {
	tap := w.Tap()
	if from > int64(len(tap)) {
		return ""
	}
	i := bytes.Index(tap[from:], []byte(marker))
	if i < 0 {
		return ""
	}
	rest := tap[from+int64(i):]
	j := bytes.IndexByte(rest, '\n')
	if j < 0 {
		return ""
	}
	return strings.TrimSuffix(string(rest[:j]), "!")
}

func vfDecodeLine(line string) ([]byte, error) {
	i := strings.IndexByte(line, ':')
	if i < 0 {
		return nil, fmt.Errorf("no colon")
	}
	return decodeString(line[i+1:])
}

type vfClientCaps struct {
	Protocol int  `json:"protocol"` // 0: leave what the client sends
	NoBinary bool `json:"no_binary"`
	NoDir    bool `json:"no_dir"`
	Fork     bool `json:"fork"`
}

// vfCapsShim rewrites the client's ACT line the way a client with other capabilities would send it.
func vfCapsShim(caps vfClientCaps) func(line []byte) []byte {
	return func(line []byte) []byte {
		body := bytes.TrimSuffix(line, []byte("\n"))
		if !bytes.HasPrefix(body, []byte("#ACT:")) {
			return line
		}
		dec, err := decodeString(string(body[5:]))
		if err != nil {
			return line
		}
		var m map[string]interface{}
		if json.Unmarshal(dec, &m) != nil {
			return line
		}
		if caps.Protocol > 0 {
			m["protocol"] = caps.Protocol
		}
		if caps.NoBinary {
			m["binary"] = false
		}
		if caps.NoDir {
			m["support_dir"] = false
		}
		if caps.Fork {
			m["fork"] = true
		}
		enc, _ := json.Marshal(m)
		return []byte("#ACT:" + encodeString(string(enc)) + "\n")
	}
}

type vfC14Episode struct {
	ServerTmux bool         `json:"server_in_tmux"` // the server itself runs inside tmux normal mode
	Tunnel     bool         `json:"tunnel"`
	GiveUp     bool         `json:"client_gives_up_on_the_tunnel,omitempty"` // the relay's answer reaches the client after its grace period
	Kind       string       `json:"kind"`                                    // success, cancel, server-fail, client-fail, ctrl-c
	Dir        string       `json:"dir"`
	Caps       vfClientCaps `json:"caps"`
	Args       baseArgs     `json:"-"`
	ArgsS      string       `json:"server_args"`
}

// c14Episode runs one transfer episode through the relays of the rig and applies the narrowing oracle.
func (r *vfFilterRig) c14Episode(ep vfC14Episode, work string, n int) bool {
	c := r.c
	f := r.filter
	nrel := len(r.relays)
	src := filepath.Join(work, fmt.Sprintf("src-%d", n))
	dst := filepath.Join(work, fmt.Sprintf("dst-%d", n))
	os.MkdirAll(src, 0755)
	os.MkdirAll(dst, 0755)
	content := vfNewRand(c.ID, "c14", n).Bytes(60000)
	os.WriteFile(filepath.Join(src, "f.bin"), content, 0644)
	os.Unsetenv("VF_ZENITY")
	upOff0, downOff0 := r.up[0].TapLen(), r.down[0].TapLen()
	upOffN, downOffN := r.up[nrel].TapLen(), r.down[nrel].TapLen()
	shim := vfCapsShim(ep.Caps)
	r.up[0].SetMutator(func(index int, typ string, line []byte) []byte {
		if typ == "ACT" {
			return shim(line)
		}
		return line
	})
	defer r.up[0].SetMutator(nil)
	args := ep.Args
	if args.Bufsize.Size == 0 {
		args.Bufsize.Size = 10 << 20
	}
	if args.Timeout == 0 {
		args.Timeout = 20
	}
	var st *trzszTransfer
	done := make(chan error, 1)
	mode := "S"
	version := kTrzszVersion
	switch ep.Kind {
	case "cancel":
		f.SetDefaultDownloadPath("")
		ep.Dir = "down"
	case "client-fail":
		f.SetDefaultDownloadPath(filepath.Join(work, "does", "not", "exist"))
		ep.Dir = "down"
	default:
		f.SetDefaultDownloadPath(dst)
	}
	if ep.Kind == "ctrl-c" || ep.Kind == "stop-before-cfg" {
		version = "1.1.0"
		ep.Dir = "down"
	}
	if ep.Kind == "stop-before-cfg" {
		// the user stops while the relays are still waiting for the server's CFG: the client's fail line
		// passes them during the handshake
		fired := false
		r.down[0].SetGate(func(ev vfGateEvent) {
			if ev.Before && ev.Type == "CFG" && !fired {
				fired = true
				r.clientIn.WriteAtomic([]byte{0x03})
				time.Sleep(300 * time.Millisecond)
			}
		})
		defer r.down[0].SetGate(nil)
	}
	var uploadRes <-chan error
	if ep.Dir == "up" {
		mode = "R"
		if args.Directory {
			mode = "D"
		}
		ch, err := f.OneTimeUpload([]string{filepath.Join(src, "f.bin")})
		if err != nil {
			c.Inconc("OneTimeUpload: %v", err)
			return false
		}
		uploadRes = ch
	}
	gate := make(chan struct{})
	tmuxMode, tmuxWidth := tmuxModeType(noTmuxMode), int32(-1)
	if ep.ServerTmux {
		tmuxMode, tmuxWidth = tmuxNormalMode, 97
	}
	st = newTransfer(r.serverOut, nil, false, nil)
	port := 0
	dial := func(p int) net.Conn {
		conn, err := net.DialTimeout("tcp", fmt.Sprintf("127.0.0.1:%d", p), 2*time.Second)
		if err != nil {
			return nil
		}
		return conn
	}
	r.idn++
	id := fmt.Sprintf("%011d00", (time.Now().UnixMilli()%1e7)*10000+r.idn%10000)
	if ep.Tunnel {
		var listener net.Listener
		listener, port = listenForTunnel()
		if listener != nil {
			defer listener.Close()
			// through relays the id arrives re-tagged (..00 -> ..20): the greeting only uses the id without its last two digits
			st.acceptOnTunnel(listener, id, port)
		}
		f.SetTunnelConnector(dial)
		if ep.GiveUp {
			f.SetTunnelConnector(func(p int) net.Conn {
				conn := dial(p)
				if conn == nil {
					return nil
				}
				return &vfSlowAnswerConn{Conn: conn, delay: 1700 * time.Millisecond}
			})
		}
		for _, rl := range r.relays {
			rl.SetTunnelConnector(dial)
		}
	} else {
		f.SetTunnelConnector(nil)
	}
	r.attach(func(p []byte) { st.addReceivedData(p, false) })
	go func() {
		var err error
		if ep.Dir == "up" {
			path := dst
			if ep.Kind == "server-fail" {
				// the destination holds a directory where the incoming file must go
				os.MkdirAll(filepath.Join(dst, "f.bin"), 0755)
				args.Overwrite = true
			}
			err = recvFiles(st, &trzArgs{baseArgs: args, Path: path}, tmuxMode, tmuxWidth)
		} else {
			var files []*sourceFile
			files, err = checkPathsReadable([]string{filepath.Join(src, "f.bin")}, args.Directory)
			if err == nil {
				if ep.Kind == "server-fail" {
					os.Remove(filepath.Join(src, "f.bin")) // dangling after the scan
				}
				if ep.Kind == "ctrl-c" {
					<-gate
				}
				err = sendFiles(st, files, &tszArgs{baseArgs: args}, tmuxMode, tmuxWidth)
			}
		}
		if err != nil {
			st.serverError(err)
		}
		st.cleanup()
		done <- err
	}()
	r.serverOut.WriteAtomic([]byte(fmt.Sprintf("\x1b7\x07::TRZSZ:TRANSFER:%s:%s:%s:%d\r\n", mode, version, id, port)))
	if ep.Kind == "ctrl-c" {
		deadline := time.Now().Add(10 * time.Second)
		for !f.IsTransferringFiles() && time.Now().Before(deadline) {
			time.Sleep(time.Millisecond)
		}
		close(gate)
		time.Sleep(20 * time.Millisecond)
		r.clientIn.WriteAtomic([]byte{0x03})
	}
	var srvErr error
	select {
	case srvErr = <-done:
	case <-time.After(90 * time.Second):
		c.Slow("c14-episode-timeout", "episode %+v through %d relay(s): the server role did not return within 90 s", ep, nrel)
		return false
	}
	if !r.waitIdle(30 * time.Second) {
		c.Viol("c14-client-not-idle:"+ep.Kind, "episode %+v: the client filter still has a transfer 30 s after the server role returned", ep)
		return false
	}
	r.attach(nil)
	if uploadRes != nil {
		select {
		case <-uploadRes:
		case <-time.After(12 * time.Second):
		}
	}
	// --- narrowing oracle on the handshake lines
	actIn := vfFindLine(r.up[0], upOff0, "#ACT:")
	actOut := vfFindLine(r.up[nrel], upOffN, "#ACT:")
	if actIn != "" {
		actIn = strings.TrimSuffix(string(shim([]byte(actIn+"\n"))), "\n")
	}
	if actIn != "" && actOut == "" {
		c.Viol("c14-act-not-forwarded", "episode %+v: the client's ACT never reached the server end", ep)
		return false
	}
	if actIn != "" {
		var in, out, want transferAction
		din, e1 := vfDecodeLine(actIn)
		dout, e2 := vfDecodeLine(actOut)
		if e1 != nil || e2 != nil || json.Unmarshal(din, &in) != nil || json.Unmarshal(dout, &out) != nil {
			c.Viol("c14-act-undecodable", "episode %+v: ACT in %q / out %q cannot be decoded", ep, vfHeadS(actIn, 80), vfHeadS(actOut, 80))
			return false
		}
		want = in
		if ep.Tunnel && !ep.GiveUp {
			c.Inconc("ACT seen in-band in a tunnel episode")
		}
		want.SupportBinary = false // no tunnel in this episode
		if want.Protocol > kProtocolVersion {
			want.Protocol = kProtocolVersion
		}
		if out.SupportBinary {
			c.Viol("c14-binary-not-narrowed", "episode %+v: ACT reached the server with binary=true through %d relay(s) without a tunnel", ep, nrel)
			return false
		}
		if out.Protocol > kProtocolVersion {
			c.Viol("c14-protocol-raised", "episode %+v: ACT reached the server with protocol %d (client sent %d, relays understand %d)", ep, out.Protocol, in.Protocol, kProtocolVersion)
			return false
		}
		if !reflect.DeepEqual(out, want) {
			c.Viol("c14-act-altered", "episode %+v: ACT at the server end %+v differs from the narrowed client ACT %+v", ep, out, want)
			return false
		}
		c.Obs("act_lines_compared", 1)
	}
	cfgIn := vfFindLine(r.down[0], downOff0, "#CFG:")
	cfgOut := vfFindLine(r.down[nrel], downOffN, "#CFG:")
	if cfgIn != "" {
		if cfgOut == "" {
			c.Viol("c14-cfg-not-forwarded", "episode %+v: the server's CFG never reached the client end", ep)
			return false
		}
		var in, out transferConfig
		din, e1 := vfDecodeLine(cfgIn)
		dout, e2 := vfDecodeLine(cfgOut)
		if e1 != nil || e2 != nil || json.Unmarshal(din, &in) != nil || json.Unmarshal(dout, &out) != nil {
			c.Viol("c14-cfg-undecodable", "episode %+v: CFG in/out cannot be decoded", ep)
			return false
		}
		// the relay decodes into its own defaults: compare against the same defaults
		want := transferConfig{Timeout: 20, Newline: "\n", MaxBufSize: 10 * 1024 * 1024}
		json.Unmarshal(din, &want)
		if out.TmuxOutputJunk && !want.TmuxOutputJunk {
			want.TmuxOutputJunk = true // a relay may add its own tmux constraint
		}
		if want.TmuxPaneColumns <= 0 && out.TmuxPaneColumns > 0 {
			want.TmuxPaneColumns = out.TmuxPaneColumns
		}
		if in.Binary && !out.Binary || out.Binary {
			if out.Binary {
				c.Viol("c14-binary-negotiated", "episode %+v: CFG reached the client with binary=true through a relay without a tunnel", ep)
				return false
			}
		}
		want.EscapeTable, out.EscapeTable = nil, nil
		if !reflect.DeepEqual(out, want) {
			c.Viol("c14-cfg-altered", "episode %+v: CFG at the client end %+v differs from the server's CFG %+v beyond the relay's own tmux constraints", ep, out, want)
			return false
		}
		c.Obs("cfg_lines_compared", 1)
	}
	// --- same result as a direct transfer
	if ep.Kind == "success" {
		if srvErr != nil {
			if vfIsTimeoutText(srvErr.Error()) {
				c.Slow("c14-transfer-timeout", "episode %+v: %v", ep, vfClip(srvErr.Error()))
			} else {
				c.Viol("c14-transfer-failed:"+vfErrClass(srvErr.Error()), "episode %+v through %d relay(s) failed: %v", ep, nrel, vfClip(srvErr.Error()))
			}
			return false
		}
		got, err := os.ReadFile(filepath.Join(dst, "f.bin"))
		if err != nil || !bytes.Equal(got, content) {
			c.Viol("c14-result-differs", "episode %+v through %d relay(s): destination file differs from the source (err %v, %d vs %d bytes)", ep, nrel, err, len(got), len(content))
			return false
		}
		c.Obs("transfers_verified", 1)
	}
	// --- every relay is back in standby
	deadline := time.Now().Add(5 * time.Second)
	for _, rl := range r.relays {
		for rl.relayStatus.Load() != kRelayStandBy && time.Now().Before(deadline) {
			time.Sleep(time.Millisecond)
		}
	}
	for i, rl := range r.relays {
		if stt := rl.relayStatus.Load(); stt != kRelayStandBy {
			c.Viol("c14-relay-not-standby:"+ep.Kind, "episode %+v: relay %d of %d is in state %d (0 standby, 1 handshaking, 2 transferring) after the transfer ended", ep, i, nrel, stt)
			return false
		}
	}
	c.Obs("episodes_"+ep.Kind, 1)
	return true
}

func TestVF_C14(t *testing.T) {
	writeToClipboard = func(buf []byte) {}
	var cases []vfCase
	n := vfPick(40, 500)
	kinds := []string{"success", "success", "success", "cancel", "server-fail", "client-fail", "ctrl-c", "success", "stop-before-cfg"}
	for i := 0; i < n; i++ {
		i := i
		cases = append(cases, vfCase{ID: fmt.Sprintf("seq-%d", i), Run: func(c *vfCtx) {
			r := c.R
			nrel := 1 + i%2
			rig := vfNewFilterRigRelays(c, TrzszOptions{}, nrel)
			defer rig.Close()
			var hist []string
			for k := 0; k < 8; k++ {
				ep := vfC14Episode{Kind: kinds[(i+k+r.Intn(3))%len(kinds)], Dir: []string{"down", "up"}[(i+k)%2]}
				ep.Caps = vfClientCaps{Protocol: []int{0, 1, 2, 3, 4, 5, 9, 0}[r.Intn(8)], NoBinary: r.Intn(3) == 0, NoDir: r.Intn(4) == 0, Fork: r.Intn(5) == 0}
				ep.Args = baseArgs{Quiet: r.Intn(2) == 0, Overwrite: r.Intn(2) == 0, Binary: r.Intn(2) == 0, Escape: r.Intn(2) == 0,
					Directory: r.Intn(2) == 0 && !ep.Caps.NoDir, Bufsize: bufferSize{int64(r.PickInt(1024, 65536, 10<<20))}, Timeout: r.PickInt(10, 20, 30), Compress: compressType(r.Intn(3))}
				ep.ArgsS = fmt.Sprintf("%+v", ep.Args)
				ep.ServerTmux = !ep.Args.Binary && r.Intn(3) == 0
				if ep.Kind == "success" && (i+k)%3 == 0 {
					ep.Tunnel = true
					ep.Caps = vfClientCaps{} // the ACT travels inside the tunnel: the shim cannot reach it
					ep.GiveUp = (i+k)%2 == 0 // ... unless the client gives up on the tunnel and goes on in-band
				}
				hist = append(hist, fmt.Sprintf("%s/%s/p%d/t%v", ep.Kind, ep.Dir, ep.Caps.Protocol, ep.Tunnel))
				if !rig.c14Episode(ep, c.Dir, k) {
					c.Replay(map[string]interface{}{"relays": nrel, "history": hist, "episode": ep})
					return
				}
				// transparency of the relays after the episode
				var po, pi [][]byte
				for q := 0; q < 4; q++ {
					po = append(po, []byte(fmt.Sprintf("remote output %d-%d \x1b[0m\r\n", k, q)), r.Bytes(1+r.Intn(300)))
					pi = append(pi, []byte(fmt.Sprintf("typed %d-%d\r", k, q)), r.Bytes(1+r.Intn(40)))
				}
				po = append(po, []byte("$ \n")) // ends with a line feed: the taps' framing parser stays in step
				if !rig.probe("after-"+ep.Kind, po, pi) {
					c.Replay(map[string]interface{}{"relays": nrel, "history": hist})
					return
				}
			}
			c.SetAdd("sequences", strings.Join(hist, ">"))
			c.Nontrivial(fmt.Sprintf("relays=%d %v", nrel, hist))
			if i < 3 {
				c.Sample(map[string]interface{}{"relays": nrel, "episodes": hist})
			}
		}})
	}
	vfRunCases(t, "C14", cases, 2, 600*time.Second)
}
