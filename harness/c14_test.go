//go:build verif

package trzsz

import (
	"bytes"
	"encoding/json"
	"fmt"
	"net"
	"os"
	"path/filepath"
	"reflect"
	"strings"
	"testing"
	"time"
)

// vfFirstLine returns the first complete line of the given type on a wire tap (after offset from).
func vfLineOfType(w *vfWire, typ string, fromMsg int) (string, int) {
	tap := w.Tap()
	msgs := w.Msgs()
	for i := fromMsg; i < len(msgs); i++ {
		m := msgs[i]
		if m.Type == typ && m.End > 0 {
			line := bytes.TrimRight(tap[m.Start:m.End], "\n")
			line = bytes.TrimSuffix(line, []byte("!"))
			return string(line), i
		}
	}
	return "", -1
}

// vfFindLine scans raw tap bytes from offset from for the first line starting with marker.
func vfFindLine(w *vfWire, from int64, marker string) string {
	tap := w.Tap()
	if from > int64(len(tap)) {
		return ""
	}
	i := bytes.Index(tap[from:], []byte(marker))
	if i < 0 {
		return ""
	}
	rest := tap[from+int64(i):]
	j := bytes.IndexByte(rest, '\n')
	if j < 0 {
		return ""
	}
	return strings.TrimSuffix(string(rest[:j]), "!")
}

func vfDecodeLine(line string) ([]byte, error) {
	i := strings.IndexByte(line, ':')
	if i < 0 {
		return nil, fmt.Errorf("no colon")
	}
	return decodeString(line[i+1:])
}

type vfClientCaps struct {
	Protocol int  `json:"protocol"` // 0: leave what the client sends
	NoBinary bool `json:"no_binary"`
	NoDir    bool `json:"no_dir"`
	Fork     bool `json:"fork"`
}

// vfCapsShim rewrites the client's ACT line the way a client with other capabilities would send it.
func vfCapsShim(caps vfClientCaps) func(line []byte) []byte {
	return func(line []byte) []byte {
		body := bytes.TrimSuffix(line, []byte("\n"))
		if !bytes.HasPrefix(body, []byte("#ACT:")) {
			return line
		}
		dec, err := decodeString(string(body[5:]))
		if err != nil {
			return line
		}
		var m map[string]interface{}
		if json.Unmarshal(dec, &m) != nil {
			return line
		}
		if caps.Protocol > 0 {
			m["protocol"] = caps.Protocol
		}
		if caps.NoBinary {
			m["binary"] = false
		}
		if caps.NoDir {
			m["support_dir"] = false
		}
		if caps.Fork {
			m["fork"] = true
		}
		enc, _ := json.Marshal(m)
		return []byte("#ACT:" + encodeString(string(enc)) + "\n")
	}
}

type vfC14Episode struct {
	ServerTmux bool         `json:"server_in_tmux"` // the server itself runs inside tmux normal mode
	Tunnel     bool         `json:"tunnel"`
	GiveUp     bool         `json:"client_gives_up_on_the_tunnel,omitempty"` // the relay's answer reaches the client after its grace period
	Kind       string       `json:"kind"`                                    // success, cancel, server-fail, client-fail, ctrl-c
	Dir        string       `json:"dir"`
	Caps       vfClientCaps `json:"caps"`
	Args       baseArgs     `json:"-"`
	ArgsS      string       `json:"server_args"`
}

// c14Episode runs one transfer episode through the relays of the rig and applies the narrowing oracle.
func (r *vfFilterRig) c14Episode(ep vfC14Episode, work string, n int) bool {
	c := r.c
	f := r.filter
	nrel := len(r.relays)
	src := filepath.Join(work, fmt.Sprintf("src-%d", n))
	dst := filepath.Join(work, fmt.Sprintf("dst-%d", n))
	os.MkdirAll(src, 0755)
	os.MkdirAll(dst, 0755)
	content := vfNewRand(c.ID, "c14", n).Bytes(60000)
	os.WriteFile(filepath.Join(src, "f.bin"), content, 0644)
	os.Unsetenv("VF_ZENITY")
	upOff0, downOff0 := r.up[0].TapLen(), r.down[0].TapLen()
	upOffN, downOffN := r.up[nrel].TapLen(), r.down[nrel].TapLen()
	shim := vfCapsShim(ep.Caps)
	r.up[0].SetMutator(func(index int, typ string, line []byte) []byte {
		if typ == "ACT" {
			return shim(line)
		}
		return line
	})
	defer r.up[0].SetMutator(nil)
	args := ep.Args
	if args.Bufsize.Size == 0 {
		args.Bufsize.Size = 10 << 20
	}
	if args.Timeout == 0 {
		args.Timeout = 20
	}
	var st *trzszTransfer
	done := make(chan error, 1)
	mode := "S"
	version := kTrzszVersion
	switch ep.Kind {
	case "cancel":
		f.SetDefaultDownloadPath("")
		ep.Dir = "down"
	case "client-fail":
		f.SetDefaultDownloadPath(filepath.Join(work, "does", "not", "exist"))
		ep.Dir = "down"
	default:
		f.SetDefaultDownloadPath(dst)
	}
	if ep.Kind == "ctrl-c" || ep.Kind == "stop-before-cfg" {
		version = "1.1.0"
		ep.Dir = "down"
	}
	if ep.Kind == "stop-before-cfg" {
		// the user stops while the relays are still waiting for the server's CFG: the client's fail line
		// passes them during the handshake
		fired := false
		r.down[0].SetGate(func(ev vfGateEvent) {
			if ev.Before && ev.Type == "CFG" && !fired {
				fired = true
				r.clientIn.WriteAtomic([]byte{0x03})
				time.Sleep(300 * time.Millisecond)
			}
		})
		defer r.down[0].SetGate(nil)
	}
	var uploadRes <-chan error
	if ep.Dir == "up" {
		mode = "R"
		if args.Directory {
			mode = "D"
		}
		ch, err := f.OneTimeUpload([]string{filepath.Join(src, "f.bin")})
		if err != nil {
			c.Inconc("OneTimeUpload: %v", err)
			return false
		}
		uploadRes = ch
	}
	gate := make(chan struct{})
	tmuxMode, tmuxWidth := tmuxModeType(noTmuxMode), int32(-1)
	if ep.ServerTmux {
		tmuxMode, tmuxWidth = tmuxNormalMode, 97
	}
	st = newTransfer(r.serverOut, nil, false, nil)
	port := 0
	dial := func(p int) net.Conn {
		conn, err := net.DialTimeout("tcp", fmt.Sprintf("127.0.0.1:%d", p), 2*time.Second)
		if err != nil {
			return nil
		}
		return conn
	}
	r.idn++
	id := fmt.Sprintf("%011d00", (time.Now().UnixMilli()%1e7)*10000+r.idn%10000)
	if ep.Tunnel {
		var listener net.Listener
		listener, port = listenForTunnel()
		if listener != nil {
			defer listener.Close()
			// through relays the id arrives re-tagged (..00 -> ..20): the greeting only uses the id without its last two digits
			st.acceptOnTunnel(listener, id, port)
		}
		f.SetTunnelConnector(dial)
		if ep.GiveUp {
			f.SetTunnelConnector(func(p int) net.Conn {
				conn := dial(p)
				if conn == nil {
					return nil
				}
				return &vfSlowAnswerConn{Conn: conn, delay: 1700 * time.Millisecond}
			})
		}
		for _, rl := range r.relays {
			rl.SetTunnelConnector(dial)
		}
	} else {
		f.SetTunnelConnector(nil)
	}
	r.attach(func(p []byte) { st.addReceivedData(p, false) })
	go func() {
		var err error
		if ep.Dir == "up" {
			path := dst
			if ep.Kind == "server-fail" {
				// the destination holds a directory where the incoming file must go
				os.MkdirAll(filepath.Join(dst, "f.bin"), 0755)
				args.Overwrite = true
			}
			err = recvFiles(st, &trzArgs{baseArgs: args, Path: path}, tmuxMode, tmuxWidth)
		} else {
			var files []*sourceFile
			files, err = checkPathsReadable([]string{filepath.Join(src, "f.bin")}, args.Directory)
			if err == nil {
				if ep.Kind == "server-fail" {
					os.Remove(filepath.Join(src, "f.bin")) // dangling after the scan
				}
				if ep.Kind == "ctrl-c" {
					<-gate
				}
				err = sendFiles(st, files, &tszArgs{baseArgs: args}, tmuxMode, tmuxWidth)
			}
		}
		if err != nil {
			st.serverError(err)
		}
		st.cleanup()
		done <- err
	}()
	r.serverOut.WriteAtomic([]byte(fmt.Sprintf("\x1b7\x07::TRZSZ:TRANSFER:%s:%s:%s:%d\r\n", mode, version, id, port)))
	if ep.Kind == "ctrl-c" {
		deadline := time.Now().Add(10 * time.Second)
		for !f.IsTransferringFiles() && time.Now().Before(deadline) {
			time.Sleep(time.Millisecond)
		}
		close(gate)
		time.Sleep(20 * time.Millisecond)
		r.clientIn.WriteAtomic([]byte{0x03})
	}
	var srvErr error
	select {
	case srvErr = <-done:
	case <-time.After(90 * time.Second):
		c.Slow("c14-episode-timeout", "episode %+v through %d relay(s): the server role did not return within 90 s", ep, nrel)
		return false
	}
	if !r.waitIdle(30 * time.Second) {
		c.Viol("c14-client-not-idle:"+ep.Kind, "episode %+v: the client filter still has a transfer 30 s after the server role returned", ep)
		return false
	}
	r.attach(nil)
	if uploadRes != nil {
		select {
		case <-uploadRes:
		case <-time.After(12 * time.Second):
		}
	}
	// --- narrowing oracle on the handshake lines
	actIn := vfFindLine(r.up[0], upOff0, "#ACT:")
	actOut := vfFindLine(r.up[nrel], upOffN, "#ACT:")
	if actIn != "" {
		actIn = strings.TrimSuffix(string(shim([]byte(actIn+"\n"))), "\n")
	}
	if actIn != "" && actOut == "" {
		c.Viol("c14-act-not-forwarded", "episode %+v: the client's ACT never reached the server end", ep)
		return false
	}
	if actIn != "" {
		var in, out, want transferAction
		din, e1 := vfDecodeLine(actIn)
		dout, e2 := vfDecodeLine(actOut)
		if e1 != nil || e2 != nil || json.Unmarshal(din, &in) != nil || json.Unmarshal(dout, &out) != nil {
			c.Viol("c14-act-undecodable", "episode %+v: ACT in %q / out %q cannot be decoded", ep, vfHeadS(actIn, 80), vfHeadS(actOut, 80))
			return false
		}
		want = in
		if ep.Tunnel && !ep.GiveUp {
			c.Inconc("ACT seen in-band in a tunnel episode")
		}
		want.SupportBinary = false // no tunnel in this episode
		if want.Protocol > kProtocolVersion {
			want.Protocol = kProtocolVersion
		}
		if out.SupportBinary {
			c.Viol("c14-binary-not-narrowed", "episode %+v: ACT reached the server with binary=true through %d relay(s) without a tunnel", ep, nrel)
			return false
		}
		if out.Protocol > kProtocolVersion {
			c.Viol("c14-protocol-raised", "episode %+v: ACT reached the server with protocol %d (client sent %d, relays understand %d)", ep, out.Protocol, in.Protocol, kProtocolVersion)
			return false
		}
		if !reflect.DeepEqual(out, want) {
			c.Viol("c14-act-altered", "episode %+v: ACT at the server end %+v differs from the narrowed client ACT %+v", ep, out, want)
			return false
		}
		c.Obs("act_lines_compared", 1)
	}
	cfgIn := vfFindLine(r.down[0], downOff0, "#CFG:")
	cfgOut := vfFindLine(r.down[nrel], downOffN, "#CFG:")
	if cfgIn != "" {
		if cfgOut == "" {
			c.Viol("c14-cfg-not-forwarded", "episode %+v: the server's CFG never reached the client end", ep)
			return false
		}
		var in, out transferConfig
		din, e1 := vfDecodeLine(cfgIn)
		dout, e2 := vfDecodeLine(cfgOut)
		if e1 != nil || e2 != nil || json.Unmarshal(din, &in) != nil || json.Unmarshal(dout, &out) != nil {
			c.Viol("c14-cfg-undecodable", "episode %+v: CFG in/out cannot be decoded", ep)
			return false
		}
		// the relay decodes into its own defaults: compare against the same defaults
		want := transferConfig{Timeout: 20, Newline: "\n", MaxBufSize: 10 * 1024 * 1024}
		json.Unmarshal(din, &want)
		if out.TmuxOutputJunk && !want.TmuxOutputJunk {
			want.TmuxOutputJunk = true // a relay may add its own tmux constraint
		}
		if want.TmuxPaneColumns <= 0 && out.TmuxPaneColumns > 0 {
			want.TmuxPaneColumns = out.TmuxPaneColumns
		}
		if in.Binary && !out.Binary || out.Binary {
			if out.Binary {
				c.Viol("c14-binary-negotiated", "episode %+v: CFG reached the client with binary=true through a relay without a tunnel", ep)
				return false
			}
		}
		want.EscapeTable, out.EscapeTable = nil, nil
		if !reflect.DeepEqual(out, want) {
			c.Viol("c14-cfg-altered", "episode %+v: CFG at the client end %+v differs from the server's CFG %+v beyond the relay's own tmux constraints", ep, out, want)
			return false
		}
		c.Obs("cfg_lines_compared", 1)
	}
	// --- same result as a direct transfer
	if ep.Kind == "success" {
		if srvErr != nil {
			if vfIsTimeoutText(srvErr.Error()) {
				c.Slow("c14-transfer-timeout", "episode %+v: %v", ep, vfClip(srvErr.Error()))
			} else {
				c.Viol("c14-transfer-failed:"+vfErrClass(srvErr.Error()), "episode %+v through %d relay(s) failed: %v", ep, nrel, vfClip(srvErr.Error()))
			}
			return false
		}
		got, err := os.ReadFile(filepath.Join(dst, "f.bin"))
		if err != nil || !bytes.Equal(got, content) {
			c.Viol("c14-result-differs", "episode %+v through %d relay(s): destination file differs from the source (err %v, %d vs %d bytes)", ep, nrel, err, len(got), len(content))
			return false
		}
		c.Obs("transfers_verified", 1)
	}
	// --- every relay is back in standby
	deadline := time.Now().Add(5 * time.Second)
	for _, rl := range r.relays {
		for rl.relayStatus.Load() != kRelayStandBy && time.Now().Before(deadline) {
			time.Sleep(time.Millisecond)
		}
	}
	for i, rl := range r.relays {
		if stt := rl.relayStatus.Load(); stt != kRelayStandBy {
			c.Viol("c14-relay-not-standby:"+ep.Kind, "episode %+v: relay %d of %d is in state %d (0 standby, 1 handshaking, 2 transferring) after the transfer ended", ep, i, nrel, stt)
			return false
		}
	}
	c.Obs("episodes_"+ep.Kind, 1)
	return true
}

// ---------------------------------------------------------------- scripted ends
//
// The in-process client cannot announce the Windows line ending in front of a non-Windows server (the Windows flag is
// process-wide), and no Windows server exists here. In this family both ends are scripts around one real relay: the
// capability sets the quantifier lists but the real ends cannot produce (client newline "!\n", server id ending in 10,
// every protocol number, binary/dir/fork in any combination) x seeded server configurations x every way of ending.

type vfC14Script struct {
	WinServer bool                   `json:"win_server"`
	WinClient bool                   `json:"win_client"`
	Act       map[string]interface{} `json:"act"`
	Cfg       map[string]interface{} `json:"cfg"`
	End       string                 `json:"end"` // client-exit, client-fail, server-fail, server-exit, ctrl-c, cancel (confirm=false), bad-cfg
	Split     int                    `json:"split"`
}

// vfRawLine returns the first line starting with marker in b together with its terminator ("!\n" or "\n").
func vfRawLine(b []byte, marker string) (body string, term string, ok bool) {
	i := bytes.Index(b, []byte(marker))
	if i < 0 {
		return "", "", false
	}
	j := bytes.IndexByte(b[i:], '\n')
	if j < 0 {
		return "", "", false
	}
	line := string(b[i : i+j])
	if strings.HasSuffix(line, "!") {
		return strings.TrimSuffix(line, "!"), "!\n", true
	}
	return line, "\n", true
}

func (r *vfRelayRig) c14Scripted(sc vfC14Script, rnd *vfRand) bool {
	c := r.c
	c0, s0 := r.toServer.Len(), r.toClient.Len()
	if st := r.relay.relayStatus.Load(); st != kRelayStandBy {
		c.Viol("c14-relay-not-standby:before", "scripted %+v: relay status %d before the episode", sc, st)
		return false
	}
	r.idn++
	suffix := "00"
	if sc.WinServer {
		suffix = "10"
	}
	id := fmt.Sprintf("%011d%s", (time.Now().UnixMilli()%1e7)*10000+r.idn%10000, suffix)
	r.serverOut.WriteAtomic([]byte(fmt.Sprintf("\x1b7\x07::TRZSZ:TRANSFER:%s:1.1.6:%s:0\r\n", rnd.PickStr("S", "R", "D"), id)))
	if !vfWaitSink(r.toClient, s0, []byte("::TRZSZ:TRANSFER:"), 20*time.Second) {
		c.Slow("c14s-trigger-not-forwarded", "scripted: the trigger did not reach the client side within 20 s")
		return false
	}
	// the client's ACT, framed the way that client frames it on a direct connection
	actJSON, _ := json.Marshal(sc.Act)
	clientNL := "\n"
	if sc.WinServer {
		clientNL = "!\n"
	}
	vfWriteSplit(r.clientIn, []byte("#ACT:"+encodeString(string(actJSON))+clientNL), sc.Split, rnd)
	if !vfWaitSink(r.toServer, c0, []byte("\n"), 20*time.Second) {
		c.Slow("c14s-act-not-forwarded", "scripted %+v: no line reached the server side within 20 s", sc)
		return false
	}
	actOut, actTerm, ok := vfRawLine(r.toServer.Bytes()[c0:], "#ACT:")
	if !ok {
		c.Viol("c14-act-not-forwarded", "scripted %+v: the server end received %q instead of an ACT line", sc, vfHead(r.toServer.Bytes()[c0:], 80))
		return false
	}
	var in, out transferAction
	in = transferAction{Newline: "\n", SupportBinary: true} // what a server assumes for fields the client omits
	json.Unmarshal(actJSON, &in)
	dout, e := vfDecodeLine(actOut)
	if e != nil || json.Unmarshal(dout, &out) != nil {
		c.Viol("c14-act-undecodable", "scripted %+v: ACT at the server end %q cannot be decoded", sc, vfHeadS(actOut, 80))
		return false
	}
	want := in
	want.SupportBinary = false
	if want.Protocol > kProtocolVersion {
		want.Protocol = kProtocolVersion
	}
	if out.SupportBinary {
		c.Viol("c14-binary-not-narrowed", "scripted %+v: ACT reached the server with binary=true without a tunnel", sc)
		return false
	}
	if out.Protocol > kProtocolVersion {
		c.Viol("c14-protocol-raised", "scripted %+v: ACT reached the server with protocol %d", sc, out.Protocol)
		return false
	}
	if !reflect.DeepEqual(out, want) {
		c.Viol("c14-act-altered", "scripted %+v: ACT at the server end %+v differs from the narrowed client ACT %+v", sc, out, want)
		return false
	}
	wantActTerm := "\n"
	if sc.WinServer {
		wantActTerm = "!\n"
	}
	if actTerm != wantActTerm {
		c.Viol("c14-act-framing", "scripted %+v: ACT reached the server terminated by %q, that server reads lines ending in %q", sc, actTerm, wantActTerm)
		return false
	}
	c.Obs("act_lines_compared", 1)
	c.Obs("scripted_act_lines", 1)
	if sc.End == "cancel" {
		return r.c14ScriptedEnd(sc, rnd, "\n", "\n")
	}
	// the server's CFG, framed with the newline the (narrowed) ACT announced
	cfgJSON, _ := json.Marshal(sc.Cfg)
	serverNL := out.Newline
	if sc.WinServer {
		serverNL = "!\n"
	}
	if sc.End == "bad-cfg" {
		// a CFG that decodes but is not a configuration: the relay must tell both ends and recover
		cb, sb := r.toServer.Len(), r.toClient.Len()
		vfWriteSplit(r.serverOut, []byte("#CFG:"+encodeString(rnd.PickStr(`{"bufsize":"oops"`, `not json`, `[1,2]`, `{"timeout":{}}`))+serverNL), sc.Split, rnd)
		deadline := time.Now().Add(10 * time.Second)
		for {
			_, _, okS := vfRawLine(r.toServer.Bytes()[cb:], "#FAIL:")
			_, _, okC := vfRawLine(r.toClient.Bytes()[sb:], "#FAIL:")
			if okS && okC {
				break
			}
			if time.Now().After(deadline) {
				c.Viol("c14-bad-cfg-not-reported", "scripted %+v: after a CFG that is not a configuration the relay did not send a FAIL line to both ends within 10 s (server end got one: %v, client end got one: %v, relay status %d)", sc, okS, okC, r.relay.relayStatus.Load())
				return false
			}
			time.Sleep(200 * time.Microsecond)
		}
		c.Obs("scripted_bad_cfg_reported", 1)
		return r.c14ScriptedEnd(sc, rnd, "\n", "\n")
	}
	s1 := r.toClient.Len()
	vfWriteSplit(r.serverOut, []byte("#CFG:"+encodeString(string(cfgJSON))+serverNL), sc.Split, rnd)
	if !vfWaitSink(r.toClient, s1, []byte("\n"), 20*time.Second) {
		c.Viol("c14-cfg-not-forwarded", "scripted %+v: nothing reached the client end within 20 s of the server's CFG (relay status %d)", sc, r.relay.relayStatus.Load())
		return false
	}
	cfgOut, cfgTerm, ok := vfRawLine(r.toClient.Bytes()[s1:], "#CFG:")
	if !ok {
		c.Viol("c14-cfg-not-forwarded", "scripted %+v: the client end received %q instead of a CFG line", sc, vfHead(r.toClient.Bytes()[s1:], 80))
		return false
	}
	// what the client ends up with: the CFG decoded over the configuration it holds at that moment. On a direct
	// connection that is {newline "\n", or "!\n" facing a Windows server} overlaid with the server's JSON.
	clientNewline := "\n"
	if sc.WinServer {
		clientNewline = "!\n"
	}
	direct := transferConfig{Timeout: 20, Newline: clientNewline, MaxBufSize: 10 * 1024 * 1024}
	json.Unmarshal(cfgJSON, &direct)
	relayed := transferConfig{Timeout: 20, Newline: clientNewline, MaxBufSize: 10 * 1024 * 1024}
	dcfg, e := vfDecodeLine(cfgOut)
	if e != nil || json.Unmarshal(dcfg, &relayed) != nil {
		c.Viol("c14-cfg-undecodable", "scripted %+v: CFG at the client end %q cannot be decoded", sc, vfHeadS(cfgOut, 80))
		return false
	}
	if relayed.Binary {
		c.Viol("c14-binary-negotiated", "scripted %+v: CFG reached the client with binary=true through a relay without a tunnel", sc)
		return false
	}
	if relayed.TmuxOutputJunk && !direct.TmuxOutputJunk {
		direct.TmuxOutputJunk = true
	}
	if direct.TmuxPaneColumns <= 0 && relayed.TmuxPaneColumns > 0 {
		direct.TmuxPaneColumns = relayed.TmuxPaneColumns
	}
	direct.EscapeTable, relayed.EscapeTable = nil, nil
	if !reflect.DeepEqual(relayed, direct) {
		c.Viol("c14-cfg-altered", "scripted %+v: the client's configuration after the relayed CFG %+v differs from the one a direct connection gives %+v beyond the relay's own tmux constraints", sc, relayed, direct)
		return false
	}
	wantCfgTerm := "\n"
	if sc.WinServer || sc.WinClient {
		wantCfgTerm = "!\n" // what a direct connection delivers: the server frames with the newline of the ACT
	}
	if cfgTerm != wantCfgTerm {
		c.Viol("c14-cfg-framing", "scripted %+v: CFG reached the client terminated by %q, a direct connection delivers %q", sc, cfgTerm, wantCfgTerm)
		return false
	}
	c.Obs("cfg_lines_compared", 1)
	c.Obs("scripted_cfg_lines", 1)
	return r.c14ScriptedEnd(sc, rnd, relayed.Newline, serverNL)
}

// c14ScriptedEnd ends the scripted episode, waits for standby and probes transparency.
func (r *vfRelayRig) c14ScriptedEnd(sc vfC14Script, rnd *vfRand, clientNL, serverNL string) bool {
	c := r.c
	if sc.End != "cancel" && sc.End != "bad-cfg" {
		if st := r.relay.relayStatus.Load(); st != kRelayTransferring {
			deadline := time.Now().Add(5 * time.Second)
			for r.relay.relayStatus.Load() != kRelayTransferring && time.Now().Before(deadline) {
				time.Sleep(time.Millisecond)
			}
		}
		// some traffic of a transfer in both directions
		cm, sm := r.toServer.Len(), r.toClient.Len()
		r.clientIn.WriteAtomic([]byte("#NUM:1" + clientNL))
		r.serverOut.WriteAtomic([]byte("#SUCC:1" + serverNL))
		// the two pumps are independent: let both lines arrive before the end marker is written, or the marker
		// seen by one pump could overtake the line still queued in the other and land inside the probe below
		if !vfWaitSink(r.toServer, cm, []byte("#NUM:1"+clientNL), 10*time.Second) || !vfWaitSink(r.toClient, sm, []byte("#SUCC:1"+serverNL), 10*time.Second) {
			c.Viol("c14-transfer-traffic-lost", "scripted %+v: protocol lines written during the transfer did not pass the relay within 10 s", sc)
			return false
		}
	}
	ce, se := r.toServer.Len(), r.toClient.Len()
	switch sc.End {
	case "client-exit":
		r.clientIn.WriteAtomic([]byte("#EXIT:" + encodeString("Saved f.bin") + clientNL))
	case "client-fail":
		r.clientIn.WriteAtomic([]byte("#" + rnd.PickStr("FAIL", "fail") + ":" + encodeString("Stopped") + clientNL))
	case "server-fail":
		r.serverOut.WriteAtomic([]byte("#" + rnd.PickStr("FAIL", "fail") + ":" + encodeString("open failed") + serverNL))
	case "server-exit":
		r.serverOut.WriteAtomic([]byte("#EXIT:" + encodeString("bye") + serverNL))
	case "ctrl-c":
		r.clientIn.WriteAtomic([]byte{0x03})
	}
	deadline := time.Now().Add(5 * time.Second)
	for r.relay.relayStatus.Load() != kRelayStandBy && time.Now().Before(deadline) {
		time.Sleep(time.Millisecond)
	}
	if stt := r.relay.relayStatus.Load(); stt != kRelayStandBy {
		c.Viol("c14-relay-not-standby:"+sc.End, "scripted %+v: the relay is in state %d (0 standby, 1 handshaking, 2 transferring) 5 s after the transfer ended", sc, stt)
		return false
	}
	// the end marker itself is forwarded (by a pump that may lag behind the status change): wait for it
	arrived := true
	waitFail := func(s *vfSink, from int) bool {
		deadline := time.Now().Add(10 * time.Second)
		for time.Now().Before(deadline) {
			if b := s.Bytes()[from:]; bytes.Contains(b, []byte("#FAIL:")) || bytes.Contains(b, []byte("#fail:")) {
				return true
			}
			time.Sleep(200 * time.Microsecond)
		}
		return false
	}
	switch sc.End {
	case "client-exit":
		arrived = vfWaitSink(r.toServer, ce, []byte("#EXIT:"), 10*time.Second)
	case "client-fail":
		arrived = waitFail(r.toServer, ce)
	case "server-fail":
		arrived = waitFail(r.toClient, se)
	case "server-exit":
		arrived = vfWaitSink(r.toClient, se, []byte("#EXIT:"), 10*time.Second)
	case "ctrl-c":
		arrived = vfWaitSink(r.toServer, ce, []byte{0x03}, 10*time.Second)
	}
	if !arrived {
		c.Viol("c14-end-marker-lost", "scripted %+v: the line that ended the transfer did not reach the other end within 10 s", sc)
		return false
	}
	// transparency afterwards, byte-exact in both directions
	time.Sleep(2 * time.Millisecond)
	c1, s1 := r.toServer.Len(), r.toClient.Len()
	pc := append([]byte(fmt.Sprintf("typed after %s\r", sc.End)), rnd.Bytes(1+rnd.Intn(60))...)
	ps := append([]byte(fmt.Sprintf("output after %s \x1b[0m\r\n", sc.End)), rnd.Bytes(1+rnd.Intn(300))...)
	pc = bytes.ReplaceAll(pc, []byte{0x03}, []byte{0x04})
	pc, ps = append(pc, "<c-end>"...), append(ps, "<s-end>"...)
	vfWriteSplit(r.clientIn, pc, rnd.Intn(3), rnd)
	vfWriteSplit(r.serverOut, ps, rnd.Intn(3), rnd)
	if !vfWaitSink(r.toServer, c1, []byte("<c-end>"), 10*time.Second) || !vfWaitSink(r.toClient, s1, []byte("<s-end>"), 10*time.Second) {
		c.Viol("c14-not-transparent:"+sc.End, "scripted %+v: probe bytes did not pass the relay within 10 s after the transfer ended", sc)
		return false
	}
	if got := r.toServer.Bytes()[c1:]; !bytes.Equal(got, pc) {
		c.Viol("c14-not-transparent:"+sc.End, "scripted %+v: typed probe altered on its way to the server: %q vs %q", sc, vfHead(got, 60), vfHead(pc, 60))
		return false
	}
	if got := r.toClient.Bytes()[s1:]; !bytes.Equal(got, ps) {
		c.Viol("c14-not-transparent:"+sc.End, "scripted %+v: server output altered on its way to the client: %q vs %q", sc, vfHead(got, 60), vfHead(ps, 60))
		return false
	}
	c.Obs("scripted_episodes_"+sc.End, 1)
	return true
}

func vfC14ScriptedCases() []vfCase {
	var cases []vfCase
	n := vfPick(24, 300)
	ends := []string{"client-exit", "client-fail", "server-fail", "server-exit", "ctrl-c", "cancel", "bad-cfg"}
	for i := 0; i < n; i++ {
		i := i
		cases = append(cases, vfCase{ID: fmt.Sprintf("script-%d", i), Run: func(c *vfCtx) {
			r := c.R
			rig := vfNewRelayRig(c)
			defer rig.Close()
			var hist []string
			for k := 0; k < 10; k++ {
				sc := vfC14Script{WinServer: (i+k)%4 == 3, WinClient: (i+k)%4 == 1 || (i+k)%4 == 3, End: ends[(i+k+r.Intn(2))%len(ends)], Split: r.Intn(3)}
				nl := "\n"
				if sc.WinClient {
					nl = "!\n"
				}
				sc.Act = map[string]interface{}{"lang": "go", "version": r.PickStr("1.1.6", "1.1.8", "1.0.0"), "confirm": sc.End != "cancel", "newline": nl,
					"protocol": r.PickInt(1, 2, 3, 4, 5, 9), "binary": !sc.WinClient && r.Intn(3) > 0, "support_dir": r.Intn(3) > 0}
				if r.Intn(4) == 0 {
					sc.Act["fork"] = true
				}
				if r.Intn(5) == 0 {
					delete(sc.Act, "protocol") // an old client
				}
				if !sc.WinClient && r.Intn(5) == 0 {
					delete(sc.Act, "newline")
				}
				cfg := map[string]interface{}{"lang": r.PickStr("go", "py", "js"), "bufsize": r.PickInt(1024, 65536, 10<<20, 1<<30), "timeout": r.PickInt(0, 5, 20, 100)}
				for _, f := range []string{"quiet", "directory", "overwrite"} {
					if r.Intn(2) == 0 {
						cfg[f] = true
					}
				}
				if p, ok := sc.Act["protocol"]; ok {
					cfg["protocol"] = vfMin(p.(int), kProtocolVersion)
				}
				if r.Intn(3) == 0 {
					cfg["tmux_output_junk"] = true
				}
				if r.Intn(3) == 0 {
					cfg["tmux_pane_width"] = r.PickInt(40, 80, 211)
				}
				if r.Intn(3) == 0 {
					cfg["compress"] = r.PickInt(1, 2)
				}
				sc.Cfg = cfg
				hist = append(hist, fmt.Sprintf("%s/ws%v/wc%v", sc.End, sc.WinServer, sc.WinClient))
				if !rig.c14Scripted(sc, r) {
					c.Replay(map[string]interface{}{"history": hist, "script": sc})
					return
				}
			}
			// scripted ends over the relay's tunnel: with a tunnel the relay keeps binary, but still clamps the protocol
			rig.relay.SetTunnelConnector(func(port int) net.Conn {
				conn, err := net.DialTimeout("tcp", fmt.Sprintf("127.0.0.1:%d", port), 2*time.Second)
				if err != nil {
					return nil
				}
				return conn
			})
			for k := 0; k < 3 && i%2 == 0; k++ {
				if !rig.tunnelEpisode(r) {
					c.Replay(map[string]interface{}{"history": hist, "tunnel_episode": k})
					return
				}
				var in, out transferAction
				dout, e := vfDecodeLine(rig.tunActOut)
				if rig.tunActOut == "" || e != nil || json.Unmarshal(dout, &out) != nil || json.Unmarshal([]byte(rig.tunActIn), &in) != nil {
					c.Viol("c14-act-undecodable", "tunnel script: ACT at the server end of the tunnel %q cannot be decoded", vfHeadS(rig.tunActOut, 80))
					c.Replay(map[string]interface{}{"history": hist, "tunnel_episode": k, "act": rig.tunActIn})
					return
				}
				want := in
				if want.Protocol > kProtocolVersion {
					want.Protocol = kProtocolVersion
				}
				if out.Protocol > kProtocolVersion {
					c.Viol("c14-protocol-raised:tunnel", "tunnel script: the client's ACT (protocol %d) reached the server through the relay's tunnel with protocol %d; the relay understands %d", in.Protocol, out.Protocol, kProtocolVersion)
					c.Replay(map[string]interface{}{"history": hist, "tunnel_episode": k, "act": rig.tunActIn})
					return
				}
				if !reflect.DeepEqual(out, want) {
					c.Viol("c14-act-altered:tunnel", "tunnel script: ACT at the server end %+v differs from the narrowed client ACT %+v", out, want)
					c.Replay(map[string]interface{}{"history": hist, "tunnel_episode": k, "act": rig.tunActIn})
					return
				}
				c.Obs("act_lines_compared", 1)
				c.Obs("scripted_tunnel_act_lines", 1)
				hist = append(hist, fmt.Sprintf("tunnel/p%d", in.Protocol))
			}
			c.SetAdd("sequences", "scripted:"+strings.Join(hist, ">"))
			c.Nontrivial(fmt.Sprintf("scripted %v", hist))
			if i < 2 {
				c.Sample(map[string]interface{}{"scripted_episodes": hist})
			}
		}})
	}
	return cases
}

func TestVF_C14(t *testing.T) {
	writeToClipboard = func(buf []byte) {}
	var cases []vfCase
	n := vfPick(40, 500)
	kinds := []string{"success", "success", "success", "cancel", "server-fail", "client-fail", "ctrl-c", "success", "stop-before-cfg"}
	for i := 0; i < n; i++ {
		i := i
		cases = append(cases, vfCase{ID: fmt.Sprintf("seq-%d", i), Run: func(c *vfCtx) {
			r := c.R
			nrel := 1 + i%2
			rig := vfNewFilterRigRelays(c, TrzszOptions{}, nrel)
			defer rig.Close()
			var hist []string
			for k := 0; k < 8; k++ {
				ep := vfC14Episode{Kind: kinds[(i+k+r.Intn(3))%len(kinds)], Dir: []string{"down", "up"}[(i+k)%2]}
				ep.Caps = vfClientCaps{Protocol: []int{0, 1, 2, 3, 4, 5, 9, 0}[r.Intn(8)], NoBinary: r.Intn(3) == 0, NoDir: r.Intn(4) == 0, Fork: r.Intn(5) == 0}
				ep.Args = baseArgs{Quiet: r.Intn(2) == 0, Overwrite: r.Intn(2) == 0, Binary: r.Intn(2) == 0, Escape: r.Intn(2) == 0,
					Directory: r.Intn(2) == 0 && !ep.Caps.NoDir, Bufsize: bufferSize{int64(r.PickInt(1024, 65536, 10<<20))}, Timeout: r.PickInt(10, 20, 30), Compress: compressType(r.Intn(3))}
				ep.ArgsS = fmt.Sprintf("%+v", ep.Args)
				ep.ServerTmux = !ep.Args.Binary && r.Intn(3) == 0
				if ep.Kind == "success" && (i+k)%3 == 0 {
					ep.Tunnel = true
					ep.Caps = vfClientCaps{} // the ACT travels inside the tunnel: the shim cannot reach it
					ep.GiveUp = (i+k)%2 == 0 // ... unless the client gives up on the tunnel and goes on in-band
				}
				hist = append(hist, fmt.Sprintf("%s/%s/p%d/t%v", ep.Kind, ep.Dir, ep.Caps.Protocol, ep.Tunnel))
				if !rig.c14Episode(ep, c.Dir, k) {
					c.Replay(map[string]interface{}{"relays": nrel, "history": hist, "episode": ep})
					return
				}
				// transparency of the relays after the episode
				var po, pi [][]byte
				for q := 0; q < 4; q++ {
					po = append(po, []byte(fmt.Sprintf("remote output %d-%d \x1b[0m\r\n", k, q)), r.Bytes(1+r.Intn(300)))
					pi = append(pi, []byte(fmt.Sprintf("typed %d-%d\r", k, q)), r.Bytes(1+r.Intn(40)))
				}
				po = append(po, []byte("$ \n")) // ends with a line feed: the taps' framing parser stays in step
				if !rig.probe("after-"+ep.Kind, po, pi) {
					c.Replay(map[string]interface{}{"relays": nrel, "history": hist})
					return
				}
			}
			c.SetAdd("sequences", strings.Join(hist, ">"))
			c.Nontrivial(fmt.Sprintf("relays=%d %v", nrel, hist))
			if i < 3 {
				c.Sample(map[string]interface{}{"relays": nrel, "episodes": hist})
			}
		}})
	}
	cases = append(cases, vfC14ScriptedCases()...)
	vfRunCases(t, "C14", cases, 2, 600*time.Second)
}
