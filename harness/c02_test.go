//go:build verif

package trzsz

import (
	"bytes"
	"fmt"
	"os"
	"path/filepath"
	"sort"
	"strings"
	"sync"
	"testing"
	"time"
)

type vfScenario struct {
	Name    string
	Cfg     vfCfg
	Tops    []string
	Specs   []vfFileSpec
	Resume  int // > 0: the destination already holds the first Resume bytes of every source file (overwrite/resume)
	Diverge int // > 0: ... followed by this many bytes that differ from the source
	Longer  int // > 0: the destination already holds the whole source followed by this many extra bytes
}

func vfFaultScenarios() []vfScenario {
	one := []vfFileSpec{{Rel: "one.bin", Size: 3000, Content: "rand"}}
	two := []vfFileSpec{{Rel: "a.txt", Size: 700, Content: "text"}, {Rel: "b.bin", Size: 2500, Content: "esc"}}
	dir := []vfFileSpec{{Rel: "d", Dir: true}, {Rel: "d/x.bin", Size: 1500, Content: "rand"}, {Rel: "d/sub/y.txt", Size: 400, Content: "text"}, {Rel: "d/empty", Dir: true}}
	var sc []vfScenario
	add := func(name string, cfg vfCfg, tops []string, specs []vfFileSpec) {
		cfg.Timeout = 2
		cfg.Quiet = true
		sc = append(sc, vfScenario{Name: name, Cfg: cfg, Tops: tops, Specs: specs})
	}
	add("down-p4-b64", vfCfg{Dir: "down", Direct: true}, []string{"one.bin"}, one)
	add("up-p4-b64", vfCfg{Dir: "up", Direct: true}, []string{"one.bin"}, one)
	add("down-p4-bin", vfCfg{Dir: "down", Binary: true, Direct: true, Compress: 2}, []string{"a.txt", "b.bin"}, two)
	add("up-p4-bin-esc", vfCfg{Dir: "up", Binary: true, Escape: true, Direct: true, Compress: 2}, []string{"a.txt", "b.bin"}, two)
	add("down-p3-b64-zstd", vfCfg{Dir: "down", Protocol: 3, Compress: 1, Direct: true}, []string{"a.txt", "b.bin"}, two)
	add("up-p2-b64", vfCfg{Dir: "up", Protocol: 2, Direct: true}, []string{"one.bin"}, one)
	add("down-p2-bin", vfCfg{Dir: "down", Protocol: 2, Binary: true, Direct: true}, []string{"one.bin"}, one)
	add("up-p1-b64", vfCfg{Dir: "up", Protocol: 1, Direct: true}, []string{"one.bin"}, one)
	add("down-p1-bin", vfCfg{Dir: "down", Protocol: 1, Binary: true, Direct: true}, []string{"one.bin"}, one)
	add("down-p4-dir-archive", vfCfg{Dir: "down", Directory: true, Direct: true}, []string{"d"}, dir)
	add("up-p4-dir-overwrite", vfCfg{Dir: "up", Directory: true, Overwrite: true, Direct: true}, []string{"d"}, dir)
	add("up-p3-dir", vfCfg{Dir: "up", Directory: true, Protocol: 3, Direct: true, Binary: true}, []string{"d"}, dir)
	// resume scenarios: the hash exchange of protocol 3/4 happens (destination holds a matching prefix)
	add("down-p4-resume", vfCfg{Dir: "down", Overwrite: true, Direct: true, Compress: 2}, []string{"one.bin"}, one)
	sc[len(sc)-1].Resume = 2000
	add("up-p3-resume-bin", vfCfg{Dir: "up", Protocol: 3, Overwrite: true, Binary: true, Direct: true}, []string{"a.txt", "b.bin"}, two)
	sc[len(sc)-1].Resume = 500
	add("up-p4-resume", vfCfg{Dir: "up", Overwrite: true, Direct: true}, []string{"one.bin"}, one)
	sc[len(sc)-1].Resume = 2999
	// overwrite of a destination that is the source plus a few extra bytes (protocol 3 announces the size in a plain line)
	add("down-p3-longer", vfCfg{Dir: "down", Protocol: 3, Overwrite: true, Direct: true}, []string{"one.bin"}, one)
	sc[len(sc)-1].Longer = 7
	add("up-p3-longer-bin", vfCfg{Dir: "up", Protocol: 3, Overwrite: true, Binary: true, Direct: true}, []string{"a.txt", "b.bin"}, two)
	sc[len(sc)-1].Longer = 3
	add("up-p4-longer", vfCfg{Dir: "up", Overwrite: true, Direct: true}, []string{"one.bin"}, one)
	sc[len(sc)-1].Longer = 500
	add("down-p4-filter", vfCfg{Dir: "down"}, []string{"a.txt", "b.bin"}, two)
	add("up-p4-filter-bin", vfCfg{Dir: "up", Binary: true}, []string{"one.bin"}, one)
	return sc
}

type vfRunResult struct {
	so, co         vfOutcome
	finished       bool
	c2s, s2c       []vfMsg
	c2sLen, s2cLen int64
	dstTree        vfTree
	srcTree        vfTree
	names          []string
	acked          int // files the receiver acknowledged (MD5 acks on its own pre-fault tap)
	hits           int
	sess           *vfSession
}

// vfCountMD5Acks counts "#SUCC:" replies that directly follow the peer's "#MD5:" in time; on the
// receiver's own tap these are SUCC lines whose payload decodes to a 16-byte digest.
func vfCountMD5Acks(w *vfWire) int {
	tap := w.Tap()
	n := 0
	for _, m := range w.Msgs() {
		if m.Type != "SUCC" || m.End == 0 {
			continue
		}
		line := m.Full
		if line == nil && m.End <= int64(len(tap)) {
			line = bytes.TrimRight(tap[m.Start:m.End], "\n!")
		}
		if len(line) < 7 {
			continue
		}
		if dec, err := decodeString(string(line[6:])); err == nil && len(dec) == 16 {
			n++
		}
	}
	return n
}

func vfRunScenario(c *vfCtx, sc vfScenario, tag string, setup func(s *vfSession), bound time.Duration) *vfRunResult {
	src := filepath.Join(c.Dir, "src")
	dst := filepath.Join(c.Dir, "dst-"+tag)
	if _, err := os.Stat(src); err != nil {
		if err := vfWriteTree(src, sc.Specs, vfNewRand("scenario", sc.Name)); err != nil {
			c.Inconc("%v", err)
			return nil
		}
	}
	os.RemoveAll(dst)
	os.MkdirAll(dst, 0755)
	var paths []string
	for _, t := range sc.Tops {
		paths = append(paths, filepath.Join(src, t))
		if sc.Longer > 0 {
			if b, err := os.ReadFile(filepath.Join(src, t)); err == nil {
				d := append([]byte(nil), b...)
				for i := 0; i < sc.Longer; i++ {
					d = append(d, byte('A'+i%26))
				}
				os.WriteFile(filepath.Join(dst, t), d, 0644)
			}
		}
		if sc.Resume > 0 {
			if b, err := os.ReadFile(filepath.Join(src, t)); err == nil && len(b) > sc.Resume {
				d := append([]byte(nil), b[:sc.Resume]...)
				for i := 0; i < sc.Diverge; i++ {
					x := byte(i * 7)
					if sc.Resume+i < len(b) {
						x = b[sc.Resume+i] ^ 0xff
					}
					d = append(d, x)
				}
				os.WriteFile(filepath.Join(dst, t), d, 0644)
			}
		}
	}
	res := &vfRunResult{}
	s, so, co, fin := vfRunTransfer(c, sc.Cfg, paths, dst, bound, func(s *vfSession) {
		if setup != nil {
			setup(s)
		}
	})
	res.sess = s
	res.so, res.co, res.finished = so, co, fin
	if !fin {
		return res
	}
	res.c2s, res.s2c = s.cliW().Msgs(), s.srvW().Msgs()
	res.c2sLen, res.s2cLen = s.cliW().TapLen(), s.srvW().TapLen()
	res.hits = s.cliW().FaultHits() + s.srvW().FaultHits()
	res.srcTree, res.dstTree = vfSnapshot(src), vfSnapshot(dst)
	res.names = vfReportedNames(sc.Cfg, so, co)
	if sc.Cfg.Dir == "up" {
		res.acked = vfCountMD5Acks(s.srvW())
	} else {
		res.acked = vfCountMD5Acks(s.cliW())
	}
	s.Close()
	return res
}

// vfRegularFilesInOrder lists the regular files of the scenario in transfer order (relative paths).
func vfRegularFilesInOrder(sc vfScenario, srcRoot string) []string {
	var out []string
	for _, top := range sc.Tops {
		list, err := checkPathsReadable([]string{filepath.Join(srcRoot, top)}, sc.Cfg.Directory)
		if err != nil {
			continue
		}
		for _, f := range list {
			if !f.IsDir {
				out = append(out, filepath.Join(f.RelPath...))
			}
		}
	}
	return out
}

// vfNoSilentCorruption: success => reported files identical; acknowledged files identical.
func vfNoSilentCorruption(c *vfCtx, sc vfScenario, res *vfRunResult, what string) bool {
	if res.so.Kind == "success" || res.co.Kind == "success" {
		names := res.names
		if len(names) == 0 && (res.so.Kind != "success" || res.so.Zero) && (res.co.Kind != "success" || res.co.Zero) {
			// e.g. a damaged "#NUM:1" read as 0: the side reports that it saved nothing, i.e. success for no file
			c.Obs("faulted_runs_reporting_zero_files_saved", 1)
			return true
		}
		if len(names) == 0 {
			names = sc.Tops // a side said success without a captured list: the sources themselves must be there
		}
		if len(names) != len(sc.Tops) {
			c.Viol("c02-success-name-count", "%s: a side reports success (server=%s client=%s) with %d names %q for %d sources", what, res.so.Kind, res.co.Kind, len(names), names, len(sc.Tops))
			return false
		}
		for i, top := range sc.Tops {
			if d := vfTreeSubEqual(res.srcTree, top, res.dstTree, names[i]); d != "" {
				c.Viol("c02-success-but-differs", "%s: reported as saved (server=%s client=%s) but %s", what, res.so.Kind, res.co.Kind, d)
				return false
			}
		}
		c.Obs("faulted_runs_ending_in_verified_success", 1)
	}
	// every file the receiver acknowledged is byte-identical to its source (empty destination: names are kept)
	archive := sc.Cfg.EffProtocol() >= 4 && sc.Cfg.Directory && !sc.Cfg.Overwrite
	if !archive {
		files := vfRegularFilesInOrder(sc, filepath.Join(c.Dir, "src"))
		for i := 0; i < res.acked && i < len(files); i++ {
			se, ok1 := res.srcTree[files[i]]
			de, ok2 := res.dstTree[files[i]]
			if !ok1 {
				continue
			}
			if !ok2 || se.Size != de.Size || se.Hash != de.Hash {
				c.Viol("c02-acked-but-differs", "%s: the receiver acknowledged the MD5 of file #%d %q but its content differs from the source (dst present=%v size %d vs %d)", what, i, files[i], ok2, de.Size, se.Size)
				return false
			}
			c.Obs("acknowledged_files_compared", 1)
		}
	}
	return true
}

type vfFaultPlan struct {
	Dir    string    `json:"direction"`
	Faults []vfFault `json:"faults"`
	Phase  string    `json:"phase"`
}

func TestVF_C02(t *testing.T) {
	scs := vfFaultScenarios()
	var cases []vfCase
	kinds := []string{"flip0", "flip5", "flip7", "del", "dup", "insr", "insn", "insh", "trunc", "delmsg", "dupmsg"}
	perScenario := vfPick(44, 1400)
	for si, sc := range scs {
		for k := 0; k < perScenario; k++ {
			si, sc, k := si, sc, k
			cases = append(cases, vfCase{ID: fmt.Sprintf("%s-f%d", sc.Name, k), Run: func(c *vfCtx) {
				r := c.R
				bsc := sc
				bsc.Cfg.Timeout = 60 // load must not turn the fault-free reference run into an error
				base := vfRunScenario(c, bsc, "base", nil, 120*time.Second)
				if base == nil || !base.finished {
					return
				}
				if base.so.Kind != "success" || base.co.Kind != "success" {
					c.Inconc("fault-free baseline failed: server=%q client=%q", vfClip(base.so.Text), vfClip(base.co.Text))
					return
				}
				// choose direction, message and position from the fault-free transcript
				dir := []string{"c2s", "s2c"}[(k+si)%2]
				msgs, total := base.c2s, base.c2sLen
				if dir == "s2c" {
					msgs, total = base.s2c, base.s2cLen
				}
				if len(msgs) == 0 {
					c.Inconc("empty transcript")
					return
				}
				nf := 1
				if vfThorough() && k%7 == 0 {
					nf = 2 + r.Intn(2)
				}
				plan := vfFaultPlan{Dir: dir}
				if sc.Longer > 0 && k%2 == 1 {
					// one bit of one digit of a SIZE line sent by the sending side
					dir = "s2c"
					msgs, total = base.s2c, base.s2cLen
					if sc.Cfg.Dir == "up" {
						dir = "c2s"
						msgs, total = base.c2s, base.c2sLen
					}
					plan.Dir = dir
					var sizes []vfMsg
					for _, m := range msgs {
						if m.Type == "SIZE" && m.End-m.Start > 7 {
							sizes = append(sizes, m)
						}
					}
					if len(sizes) > 0 {
						m := sizes[(k/2)%len(sizes)]
						off := m.Start + 6 + int64(r.Intn(int(m.End-m.Start-7)))
						plan.Faults = append(plan.Faults, vfFault{Off: off, Kind: "flip", Arg: r.Intn(4)})
						plan.Phase = "SIZE-digit"
						nf = 0
					}
				} else if sc.Resume > 0 && k%4 == 1 {
					// resume scenarios: damage one of the first acknowledgement lines (NUM echo, target-file reply,
					// prefix-hash acks) of the receiving side
					dir = "c2s"
					msgs, total = base.c2s, base.c2sLen
					if sc.Cfg.Dir == "up" {
						dir = "s2c"
						msgs, total = base.s2c, base.s2cLen
					}
					plan.Dir = dir
					var succ []vfMsg
					for _, m := range msgs {
						if m.Type == "SUCC" && m.End-m.Start > 8 {
							succ = append(succ, m)
						}
					}
					if len(succ) > 1 {
						m := succ[vfMin(len(succ)-1, 1+(k/4)%4)]
						off := m.Start + 6 + int64(r.Intn(int(m.End-m.Start-7)))
						plan.Faults = append(plan.Faults, vfFault{Off: off, Kind: "flip", Arg: r.Intn(8)})
						plan.Phase = "SUCC-early-ack"
						nf = 0
					}
				} else if k%2 == 0 {
					// payload faults: one bit of one payload byte of a DATA message in the data direction
					dir = "s2c"
					msgs, total = base.s2c, base.s2cLen
					if sc.Cfg.Dir == "up" {
						dir = "c2s"
						msgs, total = base.c2s, base.c2sLen
					}
					plan.Dir = dir
					var datas []vfMsg
					for _, m := range msgs {
						if m.Type == "DATA" && m.End-m.Start > 24 {
							datas = append(datas, m)
						}
					}
					if len(datas) > 0 {
						m := datas[r.Intn(len(datas))]
						hdr := int64(6)
						if m.BinLen > 0 {
							hdr = m.End - m.Start - m.BinLen
						}
						span := m.End - m.Start - hdr - 1
						off := m.Start + hdr + int64(r.Intn(int(span)))
						plan.Faults = append(plan.Faults, vfFault{Off: off, Kind: "flip", Arg: r.Intn(8)})
						plan.Phase = "DATA-payload"
						nf = 0
					}
				}
				for f := 0; f < nf; f++ {
					m := msgs[(k/2+f*3+r.Intn(2))%len(msgs)]
					if k%5 == 4 {
						m = msgs[r.Intn(len(msgs))]
					}
					mlen := m.End - m.Start
					if m.End == 0 {
						mlen = total - m.Start
					}
					kind := kinds[(k+f)%len(kinds)]
					var off int64
					switch r.Intn(6) {
					case 0:
						off = m.Start
					case 1:
						off = m.Start + mlen - 1
					case 2:
						off = m.Start - 1
					case 3:
						off = m.Start + int64(r.Intn(int(vfMinI64(mlen, 12)))) // header bytes
					default:
						off = m.Start + int64(r.Intn(int(mlen)))
					}
					if off < 0 {
						off = 0
					}
					if off >= total {
						off = total - 1
					}
					fl := vfFault{Off: off}
					switch kind {
					case "flip0", "flip5", "flip7":
						fl.Kind, fl.Arg = "flip", int(kind[4]-'0')
					case "del":
						fl.Kind, fl.Arg = "del", 1
					case "dup":
						fl.Kind, fl.Arg = "dup", 1
					case "insr":
						fl.Kind, fl.Arg = "ins", r.Intn(256)
					case "insn":
						fl.Kind, fl.Arg = "ins", '\n'
					case "insh":
						fl.Kind, fl.Arg = "ins", '#'
					case "trunc":
						fl.Kind = "trunc"
					case "delmsg":
						fl.Kind, fl.Off, fl.Arg = "del", m.Start, int(mlen)
					case "dupmsg":
						fl.Kind, fl.Off, fl.Arg = "dup", m.Start, int(mlen)
					}
					plan.Faults = append(plan.Faults, fl)
					plan.Phase = m.Type
				}
				c.Replay(map[string]interface{}{"scenario": sc.Name, "cfg": sc.Cfg, "plan": plan})
				// a fault inside the trigger line or the ACT line can keep the handshake from ever beginning;
				// the server then waits for the user by design (no timeout before the handshake)
				preHandshake := false
				for _, f := range plan.Faults {
					if dir == "c2s" && len(base.c2s) > 0 && f.Off < base.c2s[0].End {
						preHandshake = true
					}
					if dir == "s2c" && !sc.Cfg.Direct && len(base.s2c) > 0 && f.Off < base.s2c[0].End+2 {
						preHandshake = true
					}
				}
				bound := 40 * time.Second
				if preHandshake {
					bound = 8 * time.Second
				}
				res := vfRunScenario(c, sc, "fault", func(s *vfSession) {
					w := s.cliW()
					if dir == "s2c" {
						w = s.srvW()
					}
					for _, f := range plan.Faults {
						w.AddFault(f)
					}
				}, bound)
				if res == nil {
					return
				}
				if !res.finished {
					if preHandshake {
						// nothing was reported as saved and nothing can have been written: not a miss
						c.mu.Lock()
						c.rec.St, c.rec.VSig, c.rec.Msg = "ok", "", ""
						c.mu.Unlock()
						c.Obs("pre_handshake_stalls", 1)
						if d := vfSnapshot(filepath.Join(c.Dir, "dst-fault")); len(d) != 0 && sc.Resume == 0 && sc.Longer == 0 {
							c.Viol("c02-prehandshake-wrote", "the handshake never began, yet the destination holds %d entries", len(d))
						}
					}
					return // otherwise recorded as slow: a hang after a fault (C11's subject) fails this check too
				}
				what := fmt.Sprintf("scenario %s, %s fault(s) %+v in phase %s", sc.Name, dir, plan.Faults, plan.Phase)
				if !vfNoSilentCorruption(c, sc, res, what) {
					return
				}
				outcomeChanged := res.so.Kind != "success" || res.co.Kind != "success" || len(res.c2s) != len(base.c2s) || len(res.s2c) != len(base.s2c)
				if res.hits > 0 && outcomeChanged {
					var ks []string
					for _, f := range plan.Faults {
						ks = append(ks, f.Kind)
					}
					sort.Strings(ks)
					c.Nontrivial(fmt.Sprintf("%s %s %s %s #%d", sc.Name, dir, plan.Phase, strings.Join(ks, "+"), k))
					c.SetAdd("phases_hit", dir+":"+plan.Phase)
					c.Obs("faults_changing_outcome", 1)
				} else if res.hits > 0 {
					c.Obs("faults_absorbed_without_effect", 1)
				} else {
					c.Obs("faults_not_reached", 1)
				}
				if k < 2 {
					c.Sample(map[string]interface{}{"scenario": sc.Name, "plan": plan, "server": res.so.Kind + ": " + vfClip(res.so.Text), "client": res.co.Kind + ": " + vfClip(res.co.Text), "receiver_acked_files": res.acked})
				}
			}})
		}
	}
	cases = append(cases, vfBigResumeCases()...)
	cases = append(cases, vfAckFlipCases()...)
	vfRunCases(t, "C02", cases, 3, 200*time.Second)
}

// vfAckFlipCases: every single-bit flip (bits 0-5) of every payload character of the prefix-hash ack of a small
// resume (one comparison block): whatever the damaged line decodes to, a side may only report success for
// a destination identical to the source.
func vfAckFlipCases() []vfCase {
	var cases []vfCase
	scs := vfFaultScenarios()
	for _, sc := range scs {
		if sc.Resume == 0 {
			continue
		}
		if !vfThorough() && sc.Name != "down-p4-resume" && sc.Name != "up-p3-resume-bin" {
			continue
		}
		sc := sc
		for pos := 0; pos < 72; pos += 6 {
			pos := pos
			cases = append(cases, vfCase{ID: fmt.Sprintf("ackflip-%s-%d", sc.Name, pos), Run: func(c *vfCtx) {
				tried, hit := 0, 0
				for p := pos; p < pos+6; p++ {
					for bit := 0; bit < 6; bit++ {
						p, bit := p, bit
						var mu sync.Mutex
						applied := false
						detail := ""
						setup := func(s *vfSession) {
							w := s.cliW() // written by the receiver
							if sc.Cfg.Dir == "up" {
								w = s.srvW()
							}
							w.SetMutator(func(index int, t string, line []byte) []byte {
								if t != "SUCC" || len(line) < 8 {
									return line
								}
								body := bytes.TrimSuffix(bytes.TrimSuffix(line, []byte("\n")), []byte("!"))
								dec, err := decodeString(string(body[6:]))
								if err != nil || !bytes.Contains(dec, []byte("\"match\"")) {
									return line
								}
								mu.Lock()
								defer mu.Unlock()
								if applied || 6+p >= len(body) {
									return line
								}
								applied = true
								out := append([]byte(nil), line...)
								out[6+p] ^= 1 << uint(bit)
								detail = fmt.Sprintf("bit %d of payload character %d of the hash ack %q (%s) flipped", bit, p, vfHead(body, 70), dec)
								return out
							})
						}
						res := vfRunScenario(c, sc, "fault", setup, 40*time.Second)
						if res == nil || !res.finished {
							return
						}
						tried++
						mu.Lock()
						a, d := applied, detail
						mu.Unlock()
						if !a {
							continue
						}
						hit++
						if !vfNoSilentCorruption(c, sc, res, "scenario "+sc.Name+": "+d) {
							c.Replay(map[string]interface{}{"scenario": sc.Name, "position": p, "bit": bit})
							return
						}
					}
				}
				c.Obs("hash_ack_bit_flips", int64(hit))
				if hit > 0 {
					c.Nontrivial(fmt.Sprintf("ackflip %s %d..%d (%d flips)", sc.Name, pos, pos+5, hit))
				}
			}})
		}
	}
	return cases
}

// vfBigResumeCases: a resume whose prefix comparison spans several 10 MiB blocks - the first block of the
// previous destination matches, the second does not - with one fault on a line of the hash exchange
// (a whole line dropped or duplicated, or one bit of its payload flipped).  The sender continues from the
// offset it believes was agreed and the receiver truncates at the offset it knows; a fault that makes the
// two differ must end in an error, not in "saved".
func vfBigResumeCases() []vfCase {
	const B = kPrefixHashStep
	var cases []vfCase
	plans := []string{"drop-ack-1", "dup-ack-1", "flip-ack-1", "flip-ack-1", "drop-hash-1", "flip-hash-1", "drop-ack-2", "flip-ack-2"}
	if vfThorough() {
		for i := 0; i < 24; i++ {
			plans = append(plans, []string{"flip-ack-1", "flip-ack-2", "flip-hash-1", "flip-hash-2"}[i%4])
		}
	}
	n := 0
	for _, dir := range []string{"up", "down"} {
		for _, proto := range []int{4, 3} {
			for pi, plan := range plans {
				if !vfThorough() && (pi+n)%2 == 1 && pi >= 2 { // quick: every case for the two whole-line faults on the first ack, half of the rest
					continue
				}
				dir, proto, pi, plan := dir, proto, pi, plan
				cases = append(cases, vfCase{ID: fmt.Sprintf("bigresume-%s-p%d-%s-%d", dir, proto, plan, pi), Run: func(c *vfCtx) {
					r := c.R
					sc := vfScenario{Name: "bigresume", Cfg: vfCfg{Dir: dir, Protocol: proto, Overwrite: true, Direct: true, Quiet: true, Timeout: 4, Binary: pi%2 == 0},
						Tops: []string{"big.bin"}, Specs: []vfFileSpec{{Rel: "big.bin", Size: 2*B + 5, Content: "rand"}}, Resume: B, Diverge: B + 5}
					which := 1
					if strings.HasSuffix(plan, "-2") {
						which = 2
					}
					kind := plan[:strings.LastIndexByte(plan, '-')]
					hits := 0
					var detail string
					var mu sync.Mutex
					setup := func(s *vfSession) {
						recvW, sendW := s.cliW(), s.srvW() // wires written by the receiver / the sender
						if dir == "up" {
							recvW, sendW = s.srvW(), s.cliW()
						}
						w, typ, key := recvW, "SUCC", "\"match\""
						if strings.Contains(kind, "hash") {
							w, typ, key = sendW, "HASH", "\"hash\""
						}
						seen := 0
						w.SetMutator(func(index int, t string, line []byte) []byte {
							if t != typ || len(line) < 8 {
								return line
							}
							body := bytes.TrimSuffix(bytes.TrimSuffix(line, []byte("\n")), []byte("!"))
							dec, err := decodeString(string(body[len(typ)+2:]))
							if err != nil || !bytes.Contains(dec, []byte(key)) {
								return line
							}
							seen++
							if seen != which {
								return line
							}
							mu.Lock()
							defer mu.Unlock()
							hits++
							switch {
							case strings.HasPrefix(kind, "drop"):
								detail = fmt.Sprintf("line %q (%s) dropped", vfHead(body, 60), dec)
								return nil
							case strings.HasPrefix(kind, "dup"):
								detail = fmt.Sprintf("line %q (%s) duplicated", vfHead(body, 60), dec)
								return append(append([]byte(nil), line...), line...)
							default:
								out := append([]byte(nil), line...)
								pos := len(typ) + 2 + r.Intn(len(body)-len(typ)-2)
								bit := r.Intn(6)
								out[pos] ^= 1 << uint(bit)
								nd, _ := decodeString(string(bytes.TrimSuffix(bytes.TrimSuffix(out, []byte("\n")), []byte("!"))[len(typ)+2:]))
								detail = fmt.Sprintf("bit %d of byte %d of line %q flipped: %s -> %q", bit, pos, vfHead(body, 60), dec, nd)
								return out
							}
						})
					}
					c.Replay(map[string]interface{}{"scenario": "bigresume", "cfg": sc.Cfg, "plan": plan})
					res := vfRunScenario(c, sc, "fault", setup, 90*time.Second)
					if res == nil || !res.finished {
						return
					}
					mu.Lock()
					h, d := hits, detail
					mu.Unlock()
					if h == 0 {
						c.Inconc("the %s line #%d of the hash exchange was never seen", kind, which)
						return
					}
					what := fmt.Sprintf("resume over two comparison blocks (%s, protocol %d, first 10 MiB of the previous destination equal, rest different): %s", dir, proto, d)
					if !vfNoSilentCorruption(c, sc, res, what) {
						return
					}
					c.Obs("bigresume_faults_"+kind, 1)
					if res.so.Kind == "success" && res.co.Kind == "success" {
						c.Obs("bigresume_faults_absorbed", 1)
					}
					c.Nontrivial(fmt.Sprintf("bigresume %s p%d %s #%d -> %s/%s", dir, proto, plan, pi, res.so.Kind, res.co.Kind))
					if pi < 2 && dir == "up" && proto == 4 {
						c.Sample(map[string]interface{}{"scenario": "bigresume", "fault": d, "server": res.so.Kind + ": " + vfClip(res.so.Text), "client": res.co.Kind + ": " + vfClip(res.co.Text)})
					}
				}})
				n++
			}
		}
	}
	return cases
}
