//go:build verif

package trzsz

// vfWire: one direction of a connection. Tap (pre-fault record of everything written),
// segmenter (how many bytes each Read returns), message gate (online protocol framing
// parser that can fire actions before/after the k-th message), byte-level fault injector.

import (
	"bytes"
	"errors"
	"io"
	"strconv"
	"sync"
	"sync/atomic"
)

var vfSeqCounter atomic.Int64

func vfNextSeq() int64 { return vfSeqCounter.Add(1) }

type vfChunk struct {
	data   []byte
	atomic bool // must be returned by exactly one Read, not merged
}

type vfFault struct {
	Off  int64  `json:"off"`  // logical offset in the written stream
	Kind string `json:"kind"` // flip, del, dup, ins, trunc
	Arg  int    `json:"arg"`  // bit number for flip, byte value for ins, count for del/dup
	done bool
	buf  []byte
}

type vfGateEvent struct {
	Index  int    // message index (0-based) in this direction
	Type   string // ACT, CFG, NUM, NAME, SIZE, DATA, SUCC, MD5, EXIT, HASH, COMP, fail, FAIL, ?
	Before bool   // before the first byte of the message / after its last byte
	Seq    int64
	Off    int64 // stream offset of message start (Before) or end (after)
}

type vfMsg struct {
	Index  int
	Type   string
	Start  int64
	End    int64  // exclusive; 0 while open
	Seq    int64  // seq of the write that started it
	Head   []byte // the header line (without newline), truncated to 200 bytes
	Full   []byte // the whole line for everything but DATA (up to 1 MiB)
	BinLen int64
}

type vfWire struct {
	name string
	mu   sync.Mutex
	cond *sync.Cond

	queue   []vfChunk
	closed  bool
	rclosed bool

	// tap
	tap      bytes.Buffer
	tapLimit int
	writes   []vfWriteRec

	// segmenter
	segPolicy string // "all", "one", "fixed", "rand", "coalesce"
	segK      int
	segRand   *vfRand

	// faults (sorted by Off)
	faults    []*vfFault
	off       int64 // logical offset of bytes written so far (pre-fault)
	delivered int64
	silent    bool  // swallow everything
	failErr   error // Write returns this error
	faultHit  int   // number of faults applied to bytes

	// gate / parser
	binary   atomic.Bool // #DATA:n\n followed by n raw bytes
	msgs     []vfMsg
	curLine  []byte
	inMsg    bool
	binLeft  int64
	gate     func(ev vfGateEvent) // called without the lock held
	msgCount int

	// rewrite of the first complete line (protocol downgrade shim)
	rewriteFirst func(line []byte) []byte
	firstDone    bool
	firstBuf     []byte

	// optional transform of delivered bytes (noise injection); applied per Write
	transform func(p []byte) []byte

	// message mutator: called with every complete header line (index, type, line incl. newline);
	// returns the bytes to deliver instead. Binary blocks pass through unchanged.
	mutator    func(index int, typ string, line []byte) []byte
	mutLine    []byte
	mutBinLeft int64
	mutIndex   int
	mutHits    int
}

type vfWriteRec struct {
	Seq int64
	Off int64
	Len int
}

func vfNewWire(name string) *vfWire {
	w := &vfWire{name: name, segPolicy: "all", tapLimit: 64 << 20}
	w.cond = sync.NewCond(&w.mu)
	return w
}

func (w *vfWire) SetSeg(policy string, k int, r *vfRand) {
	w.mu.Lock()
	w.segPolicy, w.segK, w.segRand = policy, k, r
	w.mu.Unlock()
}

func (w *vfWire) SetGate(g func(ev vfGateEvent)) {
	w.mu.Lock()
	w.gate = g
	w.mu.Unlock()
}

func (w *vfWire) AddFault(f vfFault) {
	w.mu.Lock()
	ff := f
	w.faults = append(w.faults, &ff)
	w.mu.Unlock()
}

func (w *vfWire) SetSilent(b bool) {
	w.mu.Lock()
	w.silent = b
	w.mu.Unlock()
}

func (w *vfWire) SetFail(err error) {
	w.mu.Lock()
	w.failErr = err
	w.mu.Unlock()
}

// parse feeds pre-fault bytes to the framing parser and returns gate events with the
// relative positions (index into p) at which they occur.
type vfGatePos struct {
	pos int
	ev  vfGateEvent
}

func (w *vfWire) parseLocked(p []byte, seq int64) []vfGatePos {
	var evs []vfGatePos
	base := w.off
	for i := 0; i < len(p); i++ {
		b := p[i]
		if w.binLeft > 0 {
			w.binLeft--
			if w.binLeft == 0 {
				m := &w.msgs[len(w.msgs)-1]
				m.End = base + int64(i) + 1
				w.inMsg = false
				evs = append(evs, vfGatePos{i + 1, vfGateEvent{Index: m.Index, Type: m.Type, Before: false, Seq: seq, Off: m.End}})
			}
			continue
		}
		if !w.inMsg {
			w.inMsg = true
			w.curLine = w.curLine[:0]
			w.msgs = append(w.msgs, vfMsg{Index: w.msgCount, Start: base + int64(i), Seq: seq, Type: "?"})
			w.msgCount++
			evs = append(evs, vfGatePos{i, vfGateEvent{Index: w.msgCount - 1, Type: "", Before: true, Seq: seq, Off: base + int64(i)}})
		}
		if b != '\n' {
			limit := 1 << 20
			if len(w.curLine) >= 6 && string(w.curLine[:6]) == "#DATA:" {
				limit = 64 // payload lines are not kept
			}
			if len(w.curLine) < limit {
				w.curLine = append(w.curLine, b)
			}
			continue
		}
		// end of header line
		m := &w.msgs[len(w.msgs)-1]
		line := w.curLine
		if n := len(line); n > 0 && line[n-1] == '!' {
			line = line[:n-1]
		}
		// a tunnel connection starts with the greeting, which has no newline: the first protocol line follows it directly
		if len(line) > 9 && string(line[:9]) == "::TRZSZ::" {
			if j := bytes.IndexByte(line, '#'); j > 0 {
				line = line[j:]
			}
		}
		typ := "?"
		if len(line) > 0 && line[0] == '#' {
			if j := bytes.IndexByte(line, ':'); j > 0 {
				typ = string(line[1:j])
			}
		}
		m.Type = typ
		if typ != "DATA" {
			m.Full = append([]byte(nil), line...)
		}
		if len(line) > 200 {
			m.Head = append([]byte(nil), line[:200]...)
		} else {
			m.Head = append([]byte(nil), line...)
		}
		if typ == "DATA" && w.binary.Load() {
			var n int64
			ok := true
			digits := line[6:]
			if len(digits) == 0 || len(digits) > 18 {
				ok = false
			}
			for _, d := range digits {
				if d < '0' || d > '9' {
					ok = false
					break
				}
				n = n*10 + int64(d-'0')
			}
			if ok && n > 0 {
				m.BinLen = n
				w.binLeft = n
				continue
			}
		}
		m.End = base + int64(i) + 1
		w.inMsg = false
		evs = append(evs, vfGatePos{i + 1, vfGateEvent{Index: m.Index, Type: typ, Before: false, Seq: seq, Off: m.End}})
	}
	return evs
}

// applyFaultsLocked transforms the pre-fault bytes p (starting at logical offset w.off).
func (w *vfWire) applyFaultsLocked(p []byte) []byte {
	if len(w.faults) == 0 {
		return p
	}
	start, end := w.off, w.off+int64(len(p))
	var out []byte
	touched := false
	for _, f := range w.faults {
		if !f.done && (f.Off < end && f.Off >= start || f.Kind == "trunc" && f.Off < end) {
			touched = true
		}
		if (f.Kind == "del" || f.Kind == "dup") && f.Off < end && f.Off+int64(vfMax(1, f.Arg)) > start {
			touched = true
		}
		if f.Kind == "trunc" && f.done {
			touched = true
		}
	}
	if !touched {
		return p
	}
	out = make([]byte, 0, len(p)+8)
	for i := 0; i < len(p); i++ {
		o := start + int64(i)
		b := p[i]
		emit := true
		var after []byte
		for _, f := range w.faults {
			if f.Kind == "dup" && f.Arg > 1 && o >= f.Off && o < f.Off+int64(f.Arg) {
				f.buf = append(f.buf, b)
				if o == f.Off+int64(f.Arg)-1 {
					after = append(after, f.buf...)
					f.done = true
					w.faultHit++
				}
				continue
			}
			if f.done {
				if f.Kind == "trunc" && o >= f.Off {
					emit = false
				}
				if f.Kind == "del" && o >= f.Off && o < f.Off+int64(vfMax(1, f.Arg)) {
					emit = false
				}
				continue
			}
			if f.Off != o && !(f.Kind == "trunc" && o >= f.Off) {
				continue
			}
			switch f.Kind {
			case "flip":
				b ^= 1 << uint(f.Arg&7)
				f.done = true
				w.faultHit++
			case "del":
				emit = false
				f.done = true // later bytes of a multi-byte deletion handled above
				w.faultHit++
			case "dup":
				out = append(out, b)
				f.done = true
				w.faultHit++
			case "ins":
				out = append(out, byte(f.Arg))
				f.done = true
				w.faultHit++
			case "trunc":
				emit = false
				f.done = true
				w.faultHit++
			}
		}
		if emit {
			out = append(out, b)
		}
		out = append(out, after...)
	}
	return out
}

func vfMax(a, b int) int {
	if a > b {
		return a
	}
	return b
}

func vfMin(a, b int) int {
	if a < b {
		return a
	}
	return b
}

func (w *vfWire) Write(p []byte) (int, error) { return w.write(p, false) }

// WriteAtomic delivers p to the reader in exactly one Read (trigger lines).
func (w *vfWire) WriteAtomic(p []byte) (int, error) { return w.write(p, true) }

func (w *vfWire) write(p []byte, atomicChunk bool) (int, error) {
	if len(p) == 0 {
		return 0, nil
	}
	seq := vfNextSeq()
	if !atomicChunk && len(p) < 4096 && bytes.Contains(p, []byte("::TRZSZ:TRANSFER:")) {
		atomicChunk = true // a forwarded trigger line stays in one read (the detector is specified per read)
	}
	w.mu.Lock()
	if w.failErr != nil {
		err := w.failErr
		w.mu.Unlock()
		return 0, err
	}
	if w.closed {
		w.mu.Unlock()
		return 0, io.ErrClosedPipe
	}
	evs := w.parseLocked(p, seq)
	gate := w.gate
	w.mu.Unlock()

	// deliver piecewise so that gate actions fire exactly at message boundaries
	last := 0
	for _, e := range evs {
		if gate == nil {
			break
		}
		if e.pos > last {
			if err := w.deliver(p[last:e.pos], seq, atomicChunk); err != nil {
				return last, err
			}
			last = e.pos
		}
		if e.ev.Before {
			// the type is not known yet for a "before" event; peek it
			e.ev.Type = vfPeekType(p[e.pos:])
		}
		gate(e.ev)
	}
	if last < len(p) {
		if err := w.deliver(p[last:], seq, atomicChunk); err != nil {
			return last, err
		}
	}
	return len(p), nil
}

func vfPeekType(p []byte) string {
	if len(p) > 1 && p[0] == '#' {
		if j := bytes.IndexByte(p, ':'); j > 0 && j < 12 {
			return string(p[1:j])
		}
	}
	return ""
}

func (w *vfWire) deliver(p []byte, seq int64, atomicChunk bool) error {
	w.mu.Lock()
	defer w.mu.Unlock()
	if w.failErr != nil {
		return w.failErr
	}
	if w.tap.Len() < w.tapLimit {
		w.tap.Write(p)
	}
	w.writes = append(w.writes, vfWriteRec{seq, w.off, len(p)})
	out := p
	if w.rewriteFirst != nil && !w.firstDone {
		w.firstBuf = append(w.firstBuf, p...)
		if i := bytes.IndexByte(w.firstBuf, '\n'); i >= 0 {
			line := w.rewriteFirst(append([]byte(nil), w.firstBuf[:i+1]...))
			out = append(line, w.firstBuf[i+1:]...)
			w.firstDone = true
			w.firstBuf = nil
		} else {
			w.off += int64(len(p))
			return nil
		}
	} else if w.mutator != nil {
		out = w.mutateLocked(p)
	} else {
		out = w.applyFaultsLocked(p)
	}
	w.off += int64(len(p))
	if w.silent || w.rclosed {
		return nil
	}
	if w.transform != nil {
		out = w.transform(out)
	}
	if len(out) == 0 {
		return nil
	}
	w.delivered += int64(len(out))
	w.queue = append(w.queue, vfChunk{append([]byte(nil), out...), atomicChunk})
	w.cond.Broadcast()
	return nil
}

// mutateLocked runs the stream through the message mutator (line-wise; binary blocks untouched).
func (w *vfWire) mutateLocked(p []byte) []byte {
	var out []byte
	for _, b := range p {
		if w.mutBinLeft > 0 {
			w.mutBinLeft--
			out = append(out, b)
			continue
		}
		w.mutLine = append(w.mutLine, b)
		if b != '\n' {
			continue
		}
		line := w.mutLine
		w.mutLine = nil
		typ := "?"
		body := bytes.TrimSuffix(bytes.TrimSuffix(line, []byte("\n")), []byte("!"))
		if len(body) > 0 && body[0] == '#' {
			if j := bytes.IndexByte(body, ':'); j > 0 {
				typ = string(body[1:j])
			}
		}
		repl := w.mutator(w.mutIndex, typ, line)
		w.mutIndex++
		if !bytes.Equal(repl, line) {
			w.mutHits++
		}
		// a (possibly rewritten) binary DATA header announces the block that follows in the original stream
		if typ == "DATA" && w.binary.Load() {
			if n, err := strconv.ParseInt(string(body[6:]), 10, 64); err == nil && n > 0 {
				w.mutBinLeft = n
			}
		}
		out = append(out, repl...)
	}
	return out
}

func (w *vfWire) MutHits() int {
	w.mu.Lock()
	defer w.mu.Unlock()
	return w.mutHits
}

func (w *vfWire) SetMutator(m func(index int, typ string, line []byte) []byte) {
	w.mu.Lock()
	w.mutator = m
	w.mu.Unlock()
}

func (w *vfWire) Read(p []byte) (int, error) {
	w.mu.Lock()
	defer w.mu.Unlock()
	for len(w.queue) == 0 {
		if w.closed || w.rclosed {
			return 0, io.EOF
		}
		w.cond.Wait()
	}
	c := &w.queue[0]
	if c.atomic {
		n := copy(p, c.data)
		if n < len(c.data) {
			c.data = c.data[n:]
		} else {
			w.queue = w.queue[1:]
		}
		return n, nil
	}
	limit := len(p)
	switch w.segPolicy {
	case "one":
		limit = 1
	case "fixed":
		limit = vfMin(limit, vfMax(1, w.segK))
	case "rand":
		limit = vfMin(limit, 1+w.segRand.Intn(vfMax(1, w.segK)))
	}
	n := 0
	for n < limit && len(w.queue) > 0 && !w.queue[0].atomic {
		c := &w.queue[0]
		m := copy(p[n:limit], c.data)
		n += m
		if m < len(c.data) {
			c.data = c.data[m:]
		} else {
			w.queue = w.queue[1:]
		}
		if w.segPolicy != "coalesce" && w.segPolicy != "fixed" && w.segPolicy != "rand" && w.segPolicy != "one" {
			break // "all": one write chunk per read
		}
	}
	return n, nil
}

func (w *vfWire) Close() error {
	w.mu.Lock()
	w.closed = true
	w.cond.Broadcast()
	w.mu.Unlock()
	return nil
}

// CloseRead makes the reader see EOF and discards anything written later.
func (w *vfWire) CloseRead() {
	w.mu.Lock()
	w.rclosed = true
	w.cond.Broadcast()
	w.mu.Unlock()
}

// TapOnly records and parses bytes without queueing them (shadow tap of a tunnel connection).
func (w *vfWire) TapOnly(p []byte) {
	seq := vfNextSeq()
	w.mu.Lock()
	w.parseLocked(p, seq)
	if w.tap.Len() < w.tapLimit {
		w.tap.Write(p)
	}
	w.writes = append(w.writes, vfWriteRec{seq, w.off, len(p)})
	w.off += int64(len(p))
	w.mu.Unlock()
}

func (w *vfWire) Tap() []byte {
	w.mu.Lock()
	defer w.mu.Unlock()
	return append([]byte(nil), w.tap.Bytes()...)
}

func (w *vfWire) TapLen() int64 {
	w.mu.Lock()
	defer w.mu.Unlock()
	return w.off
}

func (w *vfWire) Msgs() []vfMsg {
	w.mu.Lock()
	defer w.mu.Unlock()
	return append([]vfMsg(nil), w.msgs...)
}

func (w *vfWire) FaultHits() int {
	w.mu.Lock()
	defer w.mu.Unlock()
	return w.faultHit
}

func (w *vfWire) Pending() int {
	w.mu.Lock()
	defer w.mu.Unlock()
	n := 0
	for _, c := range w.queue {
		n += len(c.data)
	}
	return n
}

var errVfInjectedWrite = errors.New("vf: injected connection write error")

// vfSink collects everything written to it (thread-safe).
type vfSink struct {
	mu     sync.Mutex
	cond   *sync.Cond
	buf    bytes.Buffer
	closed bool
}

func vfNewSink() *vfSink {
	s := &vfSink{}
	s.cond = sync.NewCond(&s.mu)
	return s
}

func (s *vfSink) Write(p []byte) (int, error) {
	s.mu.Lock()
	s.buf.Write(p)
	s.cond.Broadcast()
	s.mu.Unlock()
	return len(p), nil
}

func (s *vfSink) Close() error {
	s.mu.Lock()
	s.closed = true
	s.cond.Broadcast()
	s.mu.Unlock()
	return nil
}

func (s *vfSink) Bytes() []byte {
	s.mu.Lock()
	defer s.mu.Unlock()
	return append([]byte(nil), s.buf.Bytes()...)
}

func (s *vfSink) Len() int {
	s.mu.Lock()
	defer s.mu.Unlock()
	return s.buf.Len()
}
