//go:build verif

package trzsz

// Rig P: the real binaries (built through the same overlay, with -race) as child processes.

import (
	"bytes"
	"fmt"
	"io"
	"net"
	"os"
	"os/exec"
	"path/filepath"
	"strings"
	"sync"
	"syscall"
	"time"

	"github.com/creack/pty"
)

func vfBin(name string) string {
	if strings.HasPrefix(name, "/") {
		return name
	}
	return filepath.Join(os.Getenv("VF_BINDIR"), name)
}

func vfProcEnv(home string) []string {
	var env []string
	for _, e := range os.Environ() {
		if strings.HasPrefix(e, "HOME=") || strings.HasPrefix(e, "TMUX") || strings.HasPrefix(e, "GORACE=") {
			continue
		}
		env = append(env, e)
	}
	// races in the real binaries are collected from the log; they must not replace the exit status (default 66)
	logPath := filepath.Join(home, "race")
	if vfOutDir != "" {
		logPath = filepath.Join(vfOutDir, "race.proc")
	}
	return append(env, "HOME="+home, "GORACE=halt_on_error=0 exitcode=0 log_path="+logPath)
}

// ---------------------------------------------------------------- trzsz on a pty (C05)

type vfPtyRun struct {
	out      []byte
	exitCode int
	err      error
}

// vfRunTrzszOnPty runs `trzsz sh -c script` on a pty; feed (optional) is written once marker was seen.
func vfRunTrzszOnPty(c *vfCtx, script string, marker string, feed []byte, limit time.Duration) vfPtyRun {
	home := filepath.Join(c.Dir, "home")
	os.MkdirAll(home, 0755)
	cmd := exec.Command(vfBin("trzsz"), "sh", "-c", script)
	cmd.Env = vfProcEnv(home)
	cmd.Dir = c.Dir
	ptmx, err := pty.StartWithSize(cmd, &pty.Winsize{Rows: 40, Cols: 120})
	if err != nil {
		return vfPtyRun{err: err}
	}
	defer ptmx.Close()
	var mu sync.Mutex
	var out []byte
	done := make(chan struct{})
	go func() {
		defer close(done)
		buf := make([]byte, 32*1024)
		for {
			n, err := ptmx.Read(buf)
			if n > 0 {
				mu.Lock()
				out = append(out, buf[:n]...)
				mu.Unlock()
			}
			if err != nil {
				return
			}
		}
	}()
	if marker != "" {
		deadline := time.Now().Add(limit)
		for {
			mu.Lock()
			seen := bytes.Contains(out, []byte(marker))
			mu.Unlock()
			if seen || time.Now().After(deadline) {
				break
			}
			time.Sleep(2 * time.Millisecond)
		}
		for i := 0; i < len(feed); i += 512 {
			ptmx.Write(feed[i:vfMin(len(feed), i+512)])
			time.Sleep(time.Millisecond)
		}
	}
	waitCh := make(chan error, 1)
	go func() { waitCh <- cmd.Wait() }()
	res := vfPtyRun{}
	select {
	case err := <-waitCh:
		if ee, ok := err.(*exec.ExitError); ok {
			res.exitCode = ee.ExitCode()
		} else if err != nil {
			res.err = err
		}
	case <-time.After(limit):
		cmd.Process.Signal(syscall.SIGQUIT)
		time.Sleep(300 * time.Millisecond)
		cmd.Process.Kill()
		<-waitCh
		res.err = fmt.Errorf("trzsz did not exit within %v", limit)
	}
	select {
	case <-done:
	case <-time.After(2 * time.Second):
	}
	mu.Lock()
	res.out = append([]byte(nil), out...)
	mu.Unlock()
	return res
}

func vfSafeBlob(r *vfRand, n int) []byte {
	b := r.Bytes(n)
	for i := range b {
		// keep clear of genuine triggers / zmodem headers by construction: no ':' runs, no '*'
		if b[i] == ':' || b[i] == '*' {
			b[i] = '.'
		}
	}
	return b
}

func vfPtyCases() []vfCase {
	var cases []vfCase
	// a transfer that the server forks into the background (tsz -f over the tunnel): the wrapper is handed back at
	// once and must be transparent while and after the background transfer runs; the remote "shell" is `cat`
	for _, dir := range []string{"down", "up"} {
		dir := dir
		cases = append(cases, vfCase{ID: "proc-fork-then-transparent-" + dir, Run: func(c *vfCtx) {
			src := filepath.Join(c.Dir, "src")
			dst := filepath.Join(c.Dir, "dst")
			os.MkdirAll(src, 0755)
			os.MkdirAll(dst, 0755)
			data := vfNewRand(c.ID, "data").Bytes(300000)
			os.WriteFile(filepath.Join(src, "forked.bin"), data, 0644)
			var p *vfProcSession
			var err error
			if dir == "down" {
				pfx := fmt.Sprintf("'%s' -f -t 30 '%s'; echo REMOTE-SHELL-IS-BACK;", vfBin("tsz"), filepath.Join(src, "forked.bin"))
				p, err = vfStartServerProc(c, pfx, "/bin/cat", nil, src, true)
				if err == nil {
					p.filter.SetDefaultDownloadPath(dst)
				}
			} else {
				pfx := fmt.Sprintf("'%s' -f -t 30 '%s'; echo REMOTE-SHELL-IS-BACK;", vfBin("trz"), dst)
				p, err = vfStartServerProcDeferred(c, pfx, "/bin/cat", nil, dst, true, []string{filepath.Join(src, "forked.bin")})
			}
			if err != nil {
				c.Inconc("cannot start: %v", err)
				return
			}
			defer func() {
				p.clientIn.Close()
				p.cmd.Process.Kill()
				p.wait(5 * time.Second)
			}()
			ok := false
			for dl := time.Now().Add(60 * time.Second); time.Now().Before(dl); time.Sleep(50 * time.Millisecond) {
				if b, err := os.ReadFile(filepath.Join(dst, "forked.bin")); err == nil && bytes.Equal(b, data) {
					ok = true
					break
				}
			}
			if !ok {
				c.Slow("c05-fork-transfer-not-done", "the background transfer did not deliver the file within 60 s; terminal %q stderr %q", vfHead(p.clientOut.Bytes(), 300), vfHead(p.stderr.Bytes(), 300))
				return
			}
			for dl := time.Now().Add(10 * time.Second); p.filter.IsTransferringFiles() && time.Now().Before(dl); {
				time.Sleep(10 * time.Millisecond)
			}
			if p.filter.IsTransferringFiles() {
				c.Viol("c05-still-transferring:fork", "the transfer went on in the background and has delivered its file, yet the wrapper still reports a transfer in progress 10 s later")
				return
			}
			// the foreground trz/tsz has exited (it forwards its input to the background process until then)
			for dl := time.Now().Add(20 * time.Second); !bytes.Contains(p.clientOut.Bytes(), []byte("REMOTE-SHELL-IS-BACK")) && time.Now().Before(dl); {
				time.Sleep(10 * time.Millisecond)
			}
			if !bytes.Contains(p.clientOut.Bytes(), []byte("REMOTE-SHELL-IS-BACK")) {
				c.Slow("c05-fork-shell-not-back", "the foreground process did not return to the shell within 20 s: terminal %q", vfHead(p.clientOut.Bytes(), 300))
				return
			}
			time.Sleep(100 * time.Millisecond)
			// transparency: typed text reaches `cat` and comes back
			o0 := p.clientOut.Len()
			probe := []byte("typed after the forked transfer 0123456789\n")
			p.clientIn.WriteAtomic(probe)
			for dl := time.Now().Add(5 * time.Second); !bytes.Contains(p.clientOut.Bytes()[o0:], probe) && time.Now().Before(dl); {
				time.Sleep(5 * time.Millisecond)
			}
			if got := p.clientOut.Bytes()[o0:]; !bytes.Contains(got, probe) {
				c.Viol("c05-not-transparent:fork", "after a transfer that the server forked into the background, typed text did not make the round trip through the remote `cat`: terminal received %q", vfHead(got, 120))
				return
			}
			c.Obs("forked_transfers_then_probed", 1)
			c.Nontrivial("fork then transparent " + dir)
		}})
	}
	codes := []int{0, 1, 7, 130, 255}
	for i, code := range codes {
		i, code := i, code
		cases = append(cases, vfCase{ID: fmt.Sprintf("pty-output-exit%d", code), Run: func(c *vfCtx) {
			r := c.R
			blob := vfSafeBlob(r, []int{1, 200, 5000, 40000, 200000}[i])
			os.WriteFile(filepath.Join(c.Dir, "BLOB"), blob, 0644)
			// the short sleep lets the wrapper forward what is still in the pty before the command is gone
			res := vfRunTrzszOnPty(c, fmt.Sprintf("stty raw -echo; cat BLOB; sleep 0.3; exit %d", code), "", nil, 60*time.Second)
			if res.err != nil {
				c.Slow("c05-pty-run", "%v", res.err)
				return
			}
			if !bytes.Equal(res.out, blob) {
				d := vfLCP(res.out, blob)
				c.Viol("c05-pty-output-differs", "trzsz wrapping `cat BLOB` (%d bytes): terminal received %d bytes, first difference at %d: got %q want %q", len(blob), len(res.out), d, vfHead(res.out[vfMin(d, len(res.out)):], 40), vfHead(blob[vfMin(d, len(blob)):], 40))
				return
			}
			if res.exitCode != code {
				c.Viol("c05-exit-status", "the wrapped command exited with %d but trzsz exited with %d", code, res.exitCode)
				return
			}
			c.Obs("pty_bytes_out", int64(len(blob)))
			c.Nontrivial(fmt.Sprintf("pty output %d bytes exit %d", len(blob), code))
			c.Sample(map[string]interface{}{"kind": "real trzsz on a pty", "output_bytes": len(blob), "exit_status": code})
		}})
		cases = append(cases, vfCase{ID: fmt.Sprintf("pty-input-exit%d", code), Run: func(c *vfCtx) {
			r := c.R
			k := []int{1, 64, 1000, 3000, 3000}[i]
			typed := r.Bytes(k)
			res := vfRunTrzszOnPty(c, fmt.Sprintf("stty raw -echo; printf READY; head -c %d > OUT; exit %d", k, code), "READY", typed, 60*time.Second)
			if res.err != nil {
				c.Slow("c05-pty-run", "%v", res.err)
				return
			}
			got, _ := os.ReadFile(filepath.Join(c.Dir, "OUT"))
			if !bytes.Equal(got, typed) {
				d := vfLCP(got, typed)
				c.Viol("c05-pty-input-differs", "typed %d bytes into trzsz; the wrapped command read %d, first difference at %d", len(typed), len(got), d)
				return
			}
			if res.exitCode != code {
				c.Viol("c05-exit-status", "the wrapped command exited with %d but trzsz exited with %d", code, res.exitCode)
				return
			}
			c.Obs("pty_bytes_in", int64(k))
			c.Nontrivial(fmt.Sprintf("pty input %d bytes exit %d", k, code))
		}})
	}
	return cases
}

// ---------------------------------------------------------------- real trz / tsz behind an in-process filter (C01, C10)

type vfProcSession struct {
	c         *vfCtx
	cmd       *exec.Cmd
	filter    *TrzszFilter
	clientIn  *vfWire
	clientOut *vfSink
	stderr    bytes.Buffer
	waitErr   error
	done      chan struct{}
}

// vfStartServerProc starts `name args...` (optionally under a shell prefix such as "ulimit -n 64;") with its
// stdio connected to a real filter.
func vfStartServerProc(c *vfCtx, shellPrefix string, name string, args []string, cwd string, tunnel bool) (*vfProcSession, error) {
	home := filepath.Join(c.Dir, "home")
	os.MkdirAll(home, 0755)
	var cmd *exec.Cmd
	if shellPrefix != "" {
		q := []string{}
		for _, a := range args {
			q = append(q, "'"+strings.ReplaceAll(a, "'", `'\''`)+"'")
		}
		cmd = exec.Command("sh", "-c", shellPrefix+" exec "+vfBin(name)+" "+strings.Join(q, " "))
	} else {
		cmd = exec.Command(vfBin(name), args...)
	}
	cmd.Env = vfProcEnv(home)
	cmd.Dir = cwd
	stdin, err := cmd.StdinPipe()
	if err != nil {
		return nil, err
	}
	stdout, err := cmd.StdoutPipe()
	if err != nil {
		return nil, err
	}
	p := &vfProcSession{c: c, cmd: cmd, clientIn: vfNewWire("pci"), clientOut: vfNewSink(), done: make(chan struct{})}
	cmd.Stderr = &p.stderr
	if err := cmd.Start(); err != nil {
		return nil, err
	}
	p.filter = NewTrzszFilter(p.clientIn, p.clientOut, stdin, stdout, TrzszOptions{TerminalColumns: 100})
	if tunnel {
		p.filter.SetTunnelConnector(func(port int) net.Conn {
			conn, err := net.DialTimeout("tcp", fmt.Sprintf("127.0.0.1:%d", port), 2*time.Second)
			if err != nil {
				return nil
			}
			return conn
		})
	}
	go func() {
		p.waitErr = cmd.Wait()
		close(p.done)
	}()
	return p, nil
}

func (p *vfProcSession) wait(d time.Duration) bool {
	select {
	case <-p.done:
		return true
	case <-time.After(d):
		p.cmd.Process.Signal(syscall.SIGQUIT)
		time.Sleep(300 * time.Millisecond)
		p.cmd.Process.Kill()
		<-p.done
		return false
	}
}

func (p *vfProcSession) exitCode() int {
	if ee, ok := p.waitErr.(*exec.ExitError); ok {
		return ee.ExitCode()
	}
	return 0
}

func vfProcTransferCases() []vfCase {
	var cases []vfCase
	type pc struct {
		name   string
		dir    string
		args   []string
		tunnel bool
		prefix string
		nfiles int
		fork   bool
	}
	list := []pc{
		{"tsz-plain", "down", []string{"-q"}, false, "", 2, false},
		{"tsz-binary-dir", "down", []string{"-b", "-d"}, false, "", 5, false},
		{"tsz-tunnel", "down", []string{"-q", "-d"}, true, "", 4, false},
		{"tsz-overwrite-b64-1k", "down", []string{"-y", "-B", "1k", "-t", "30"}, false, "", 2, false},
		{"trz-plain", "up", []string{"-q"}, false, "", 2, false},
		{"trz-binary-escape-dir", "up", []string{"-b", "-e", "-d", "-y"}, false, "", 5, false},
		{"trz-tunnel-compress-no", "up", []string{"-c", "no", "-d"}, true, "", 4, false},
		{"tsz-300-files-nofile-64", "down", []string{"-q", "-d"}, false, "ulimit -n 64;", 300, false},
		{"trz-300-files-nofile-64", "up", []string{"-q", "-d", "-y"}, false, "ulimit -n 64;", 300, false},
		{"tsz-fork-tunnel", "down", []string{"-f", "-d"}, true, "", 3, true},
		{"trz-fork-tunnel", "up", []string{"-f", "-d"}, true, "", 3, true},
	}
	for _, x := range list {
		x := x
		cases = append(cases, vfCase{ID: "proc-" + x.name, Run: func(c *vfCtx) { vfProcTransfer(c, x.name, x.dir, x.args, x.tunnel, x.prefix, x.nfiles, x.fork) }})
	}
	return cases
}

func vfProcTransfer(c *vfCtx, name, dir string, args []string, tunnel bool, prefix string, nfiles int, fork bool) {
	r := c.R
	src := filepath.Join(c.Dir, "src")
	dst := filepath.Join(c.Dir, "dst")
	os.MkdirAll(dst, 0755)
	var specs []vfFileSpec
	var tops []string
	directory := false
	for _, a := range args {
		if a == "-d" {
			directory = true
		}
	}
	if directory {
		specs = append(specs, vfFileSpec{Rel: "tree", Dir: true}, vfFileSpec{Rel: "tree/empty", Dir: true})
		for k := 0; k < nfiles; k++ {
			specs = append(specs, vfFileSpec{Rel: fmt.Sprintf("tree/s%d/f%03d 中.bin", k%4, k), Size: r.PickInt(0, 1, 700, 20000), Content: "rand"})
		}
		tops = []string{"tree"}
	} else {
		for k := 0; k < nfiles; k++ {
			n := fmt.Sprintf("file %d.bin", k)
			specs = append(specs, vfFileSpec{Rel: n, Size: r.PickInt(1, 700, 200000), Content: "rand"})
			tops = append(tops, n)
		}
	}
	if nfiles >= 100 {
		for i := range specs {
			if !specs[i].Dir {
				specs[i].Size = 20
			}
		}
	}
	if err := vfWriteTree(src, specs, vfNewRand(c.ID, "src")); err != nil {
		c.Inconc("%v", err)
		return
	}
	var paths []string
	for _, t := range tops {
		paths = append(paths, filepath.Join(src, t))
	}
	srcTree := vfSnapshot(src)
	var p *vfProcSession
	var err error
	if dir == "down" {
		p, err = vfStartServerProc(c, prefix, "tsz", append(append([]string{}, args...), paths...), src, tunnel)
		if err == nil {
			p.filter.SetDefaultDownloadPath(dst)
		}
	} else {
		// the filter must know what to upload before trz prints its trigger: start the process only afterwards
		p, err = vfStartServerProcDeferred(c, prefix, "trz", append(append([]string{}, args...), dst), dst, tunnel, paths)
	}
	if err != nil {
		c.Inconc("cannot start the server process: %v", err)
		return
	}
	if !p.wait(120 * time.Second) {
		c.Slow("c01-proc-hang", "%s: the real server process did not exit within 120 s; stderr %q; terminal %q", name, vfHead(p.stderr.Bytes(), 300), vfHead(p.clientOut.Bytes(), 300))
		return
	}
	if code := p.exitCode(); code != 0 {
		c.Viol("c01-proc-exit:"+name, "%s exited with status %d; stderr %q; terminal output %q", name, code, vfHead(p.stderr.Bytes(), 400), vfHead(p.clientOut.Bytes(), 400))
		return
	}
	// in fork mode the parent has exited while the background child finishes over the tunnel
	deadline := time.Now().Add(60 * time.Second)
	var diff string
	for {
		dstTree := vfSnapshot(dst)
		diff = ""
		for _, top := range tops {
			if d := vfTreeSubEqual(srcTree, top, dstTree, top); d != "" {
				diff = d
				break
			}
		}
		if diff == "" || !fork || time.Now().After(deadline) {
			break
		}
		time.Sleep(100 * time.Millisecond)
	}
	term := p.clientOut.Bytes()
	if diff != "" {
		c.Viol("c01-proc-tree-differs:"+name, "%s: after the real process exited with 0: %s; terminal output %q; stderr %q", name, diff, vfHead(term, 300), vfHead(p.stderr.Bytes(), 300))
		return
	}
	if !fork {
		if _, _, names, ok := vfParseSaved(string(term)); !ok || len(names) != len(tops) {
			c.Viol("c01-proc-message:"+name, "%s: the message shown to the user does not list the %d saved names: %q", name, len(tops), vfHead(term[vfMax(0, len(term)-300):], 300))
			return
		}
	}
	if rl, _ := filepath.Glob(filepath.Join(c.Dir, "home", "race*")); len(rl) > 0 {
		c.Obs("race_logs_from_real_processes", int64(len(rl)))
	}
	c.Obs("real_process_transfers", 1)
	c.Obs("files_compared", int64(len(specs)))
	c.Nontrivial("proc " + name)
	c.Sample(map[string]interface{}{"kind": "real process", "command": name, "args": args, "shell_prefix": prefix, "tunnel": tunnel, "fork": fork, "entries": len(specs), "exit_status": 0})
}

// vfStartServerProcDeferred arms the upload, then starts trz.
func vfStartServerProcDeferred(c *vfCtx, prefix string, name string, args []string, cwd string, tunnel bool, upload []string) (*vfProcSession, error) {
	// The filter is created inside vfStartServerProc after the process has started; the trigger needs at
	// least process start-up + tmux check + listen, far longer than arming the upload takes. To be safe the
	// process is started under a shell that waits for a go-ahead file.
	goFile := filepath.Join(c.Dir, "go-ahead")
	pfx := fmt.Sprintf("%s while [ ! -e '%s' ]; do sleep 0.02; done;", prefix, goFile)
	p, err := vfStartServerProc(c, pfx, name, args, cwd, tunnel)
	if err != nil {
		return nil, err
	}
	if _, err := p.filter.OneTimeUpload(upload); err != nil {
		return nil, err
	}
	os.WriteFile(goFile, []byte("go"), 0644)
	return p, nil
}

// vfProcSignalCases: a real SIGINT / SIGTERM to tsz mid-transfer stops both sides.
func vfProcSignalCases() []vfCase {
	var cases []vfCase
	for _, sig := range []syscall.Signal{syscall.SIGINT, syscall.SIGTERM} {
		sig := sig
		cases = append(cases, vfCase{ID: fmt.Sprintf("proc-signal-%d", int(sig)), Run: func(c *vfCtx) {
			src := filepath.Join(c.Dir, "src")
			dst := filepath.Join(c.Dir, "dst")
			os.MkdirAll(src, 0755)
			os.MkdirAll(dst, 0755)
			os.WriteFile(filepath.Join(src, "big.bin"), vfNewRand(c.ID).Bytes(6<<20), 0644)
			os.WriteFile(filepath.Join(dst, "keep.txt"), []byte("keep"), 0644)
			p, err := vfStartServerProc(c, "", "tsz", []string{"-B", "1k", "-t", "30", filepath.Join(src, "big.bin")}, src, false)
			if err != nil {
				c.Inconc("%v", err)
				return
			}
			p.filter.SetDefaultDownloadPath(dst)
			deadline := time.Now().Add(20 * time.Second)
			for !p.filter.IsTransferringFiles() && time.Now().Before(deadline) {
				time.Sleep(2 * time.Millisecond)
			}
			time.Sleep(150 * time.Millisecond)
			t0 := time.Now()
			p.cmd.Process.Signal(sig)
			if !p.wait(30 * time.Second) {
				c.Slow("c10-proc-signal-hang", "tsz did not exit within 30 s of signal %d", int(sig))
				return
			}
			took := time.Since(t0)
			for dl := time.Now().Add(10 * time.Second); p.filter.IsTransferringFiles() && time.Now().Before(dl); {
				time.Sleep(5 * time.Millisecond)
			}
			if p.filter.IsTransferringFiles() {
				c.Viol("c10-proc-client-not-ended", "the client is still transferring 10 s after tsz was signalled and exited")
				return
			}
			term := string(p.clientOut.Bytes())
			if took > 6*time.Second {
				c.Slow("c10-proc-signal-slow", "tsz took %v to exit after signal %d", took, int(sig))
				return
			}
			if !strings.Contains(term, "Stopped") {
				c.Viol("c10-proc-not-reported-stopped", "after signal %d the terminal does not show that the transfer was stopped: %q", int(sig), vfHead([]byte(term[vfMax(0, len(term)-300):]), 300))
				return
			}
			if b, err := os.ReadFile(filepath.Join(dst, "keep.txt")); err != nil || string(b) != "keep" {
				c.Viol("c10-proc-touched-other", "keep.txt changed")
				return
			}
			c.Obs("real_signals_delivered", 1)
			c.Nontrivial(fmt.Sprintf("signal %d", int(sig)))
			c.Sample(map[string]interface{}{"kind": "real signal", "signal": int(sig), "exit_after_ms": took.Milliseconds()})
		}})
	}
	// the same signals in the handshake: the server has printed its trigger and nobody has answered yet
	for _, name := range []string{"trz", "tsz"} {
		for _, sig := range []syscall.Signal{syscall.SIGINT, syscall.SIGTERM} {
			name, sig := name, sig
			cases = append(cases, vfCase{ID: fmt.Sprintf("proc-signal-handshake-%s-%d", name, int(sig)), Run: func(c *vfCtx) {
				src := filepath.Join(c.Dir, "src")
				dst := filepath.Join(c.Dir, "dst")
				home := filepath.Join(c.Dir, "home")
				for _, d := range []string{src, dst, home} {
					os.MkdirAll(d, 0755)
				}
				os.WriteFile(filepath.Join(src, "f.bin"), []byte("content"), 0644)
				os.WriteFile(filepath.Join(dst, "keep.txt"), []byte("keep"), 0644)
				args := []string{"-t", "30", dst}
				if name == "tsz" {
					args = []string{"-t", "30", filepath.Join(src, "f.bin")}
				}
				cmd := exec.Command(vfBin(name), args...)
				cmd.Env = vfProcEnv(home)
				cmd.Dir = src
				stdin, _ := cmd.StdinPipe()
				stdout, _ := cmd.StdoutPipe()
				var stderr bytes.Buffer
				cmd.Stderr = &stderr
				if err := cmd.Start(); err != nil {
					c.Inconc("%v", err)
					return
				}
				defer stdin.Close()
				out := vfNewSink()
				go io.Copy(out, stdout)
				for dl := time.Now().Add(20 * time.Second); !bytes.Contains(out.Bytes(), []byte("::TRZSZ:TRANSFER:")) && time.Now().Before(dl); {
					time.Sleep(5 * time.Millisecond)
				}
				if !bytes.Contains(out.Bytes(), []byte("::TRZSZ:TRANSFER:")) {
					cmd.Process.Kill()
					cmd.Wait()
					c.Inconc("%s printed no trigger within 20 s: %q / %q", name, vfHead(out.Bytes(), 200), vfHead(stderr.Bytes(), 200))
					return
				}
				time.Sleep(200 * time.Millisecond)
				t0 := time.Now()
				cmd.Process.Signal(sig)
				done := make(chan error, 1)
				go func() { done <- cmd.Wait() }()
				var werr error
				select {
				case werr = <-done:
				case <-time.After(30 * time.Second):
					cmd.Process.Kill()
					<-done
					c.Slow("c10-proc-signal-hang", "%s did not exit within 30 s of signal %d delivered in the handshake", name, int(sig))
					return
				}
				took := time.Since(t0)
				time.Sleep(50 * time.Millisecond)
				term := string(out.Bytes())
				if ee, ok := werr.(*exec.ExitError); ok {
					if ws, ok := ee.Sys().(syscall.WaitStatus); ok && ws.Signaled() {
						c.Viol("c10-proc-killed-by-signal", "%s was killed by signal %d delivered in the handshake (no report, the client is left waiting); output so far %q", name, int(sig), vfHead([]byte(term), 200))
						return
					}
				}
				if !strings.Contains(term, "Stopped") && !strings.Contains(term, "#fail:") && !strings.Contains(term, "#FAIL:") {
					c.Viol("c10-proc-not-reported-stopped", "after signal %d in the handshake %s exited (%v) without telling the other side or the user: %q", int(sig), name, werr, vfHead([]byte(term[vfMax(0, len(term)-300):]), 300))
					return
				}
				if took > 6*time.Second {
					c.Slow("c10-proc-signal-slow", "%s took %v to exit after signal %d in the handshake", name, took, int(sig))
					return
				}
				if b, err := os.ReadFile(filepath.Join(dst, "keep.txt")); err != nil || string(b) != "keep" {
					c.Viol("c10-proc-touched-other", "keep.txt changed")
					return
				}
				c.Obs("real_signals_delivered_in_handshake", 1)
				c.Nontrivial(fmt.Sprintf("handshake signal %s %d", name, int(sig)))
			}})
		}
	}
	return cases
}

var _ = io.EOF
