//go:build verif

package trzsz

import (
	"bytes"
	"fmt"
	"os"
	"path/filepath"
	"strings"
	"sync"
	"testing"
	"time"
)

// vfFilterRig: one long-lived filter with harness endpoints; server-side input is tee'd so that a
// scripted or real server role can be attached for one episode.
type vfFilterRig struct {
	c         *vfCtx
	filter    *TrzszFilter
	clientIn  *vfWire
	clientOut *vfSink
	serverIn  *vfWire // written by the filter
	serverOut *vfWire // read by the filter
	siSink    *vfSink // everything the filter sent to the server
	mu        sync.Mutex
	attached  func(p []byte)
	idn       int64
	up, down  []*vfWire // up[0] written by the filter ... up[n] read at the server end; down[0] written by the server ... down[n] read by the filter
	relays    []*TrzszRelay
}

func vfNewFilterRig(c *vfCtx, opts TrzszOptions) *vfFilterRig {
	return vfNewFilterRigRelays(c, opts, 0)
}

// vfNewFilterRigRelays puts n real relays between the filter and the server end.
func vfNewFilterRigRelays(c *vfCtx, opts TrzszOptions, n int) *vfFilterRig {
	r := &vfFilterRig{c: c, clientIn: vfNewWire("ci"), clientOut: vfNewSink(), siSink: vfNewSink()}
	for i := 0; i <= n; i++ {
		r.up = append(r.up, vfNewWire(fmt.Sprintf("up%d", i)))
		r.down = append(r.down, vfNewWire(fmt.Sprintf("down%d", i)))
	}
	r.serverIn, r.serverOut = r.up[n], r.down[0]
	for i := 0; i < n; i++ {
		r.relays = append(r.relays, NewTrzszRelay(r.up[i], vfWriterCloser{r.down[n-i]}, vfWriterCloser{r.up[i+1]}, r.down[n-1-i], TrzszOptions{}))
	}
	go func() {
		buf := make([]byte, 32*1024)
		for {
			n, err := r.serverIn.Read(buf)
			if n > 0 {
				p := append([]byte(nil), buf[:n]...)
				r.siSink.Write(p)
				r.mu.Lock()
				f := r.attached
				r.mu.Unlock()
				if f != nil {
					f(p)
				}
			}
			if err != nil {
				return
			}
		}
	}()
	opts.TerminalColumns = 100
	r.filter = NewTrzszFilter(r.clientIn, r.clientOut, vfWriterCloser{r.up[0]}, r.down[n], opts)
	if opts.DetectDragFile {
		time.Sleep(30 * time.Millisecond) // drag detection is switched on by a goroutine
	}
	return r
}

func (r *vfFilterRig) attach(f func(p []byte)) {
	r.mu.Lock()
	r.attached = f
	r.mu.Unlock()
}

func (r *vfFilterRig) Close() {
	r.clientIn.Close()
	for _, w := range r.up {
		w.Close()
	}
	for _, w := range r.down {
		w.Close()
	}
}

func (r *vfFilterRig) trigger(mode string, version string) string {
	r.idn++
	return fmt.Sprintf("\x1b7\x07::TRZSZ:TRANSFER:%s:%s:%011d00:0\r\n", mode, version, (time.Now().UnixMilli()%1e8)*100+r.idn%100)
}

// waitIdle waits until no transfer is registered and no handler goroutine of this case is left.
func (r *vfFilterRig) waitIdle(d time.Duration) bool {
	deadline := time.Now().Add(d)
	for {
		busy := r.filter.IsTransferringFiles()
		if !busy {
			for _, g := range vfCaseGoroutines(r.c.ID) {
				for _, fn := range g.Frames {
					if strings.Contains(fn, "(*TrzszFilter).handleTrzsz") {
						busy = true
					}
				}
			}
		}
		if !busy {
			return true
		}
		if time.Now().After(deadline) {
			return false
		}
		time.Sleep(5 * time.Millisecond)
	}
}

// probe checks byte-exact transparency in both directions for the given chunk lists.
func (r *vfFilterRig) probe(tag string, out [][]byte, in [][]byte) bool {
	c := r.c
	r.idn++
	sentinel := []byte(fmt.Sprintf("<<vf-sentinel-%d>>", r.idn))
	o0, i0 := r.clientOut.Len(), r.siSink.Len()
	var wantOut, wantIn []byte
	for _, ch := range out {
		r.serverOut.WriteAtomic(ch)
		wantOut = append(wantOut, ch...)
	}
	r.serverOut.WriteAtomic(sentinel)
	wantOut = append(wantOut, sentinel...)
	for _, ch := range in {
		r.clientIn.WriteAtomic(ch)
		wantIn = append(wantIn, ch...)
	}
	r.clientIn.WriteAtomic(sentinel)
	wantIn = append(wantIn, sentinel...)
	deadline := time.Now().Add(20 * time.Second)
	for {
		gotOut := r.clientOut.Bytes()[o0:]
		gotIn := r.siSink.Bytes()[i0:]
		if bytes.HasSuffix(gotOut, sentinel) && bytes.HasSuffix(gotIn, sentinel) || time.Now().After(deadline) {
			if len(gotOut) < len(wantOut) && bytes.HasPrefix(wantOut, gotOut) && len(gotIn) <= len(wantIn) && bytes.HasPrefix(wantIn, gotIn) {
				c.Slow("c05-probe-incomplete:"+tag, "%s: after 20 s only %d of %d output bytes and %d of %d input bytes had come through (all correct so far)", tag, len(gotOut), len(wantOut), len(gotIn), len(wantIn))
				return false
			}
			if len(gotIn) < len(wantIn) && bytes.HasPrefix(wantIn, gotIn) && bytes.Equal(gotOut, wantOut) {
				c.Slow("c05-probe-incomplete:"+tag, "%s: after 20 s only %d of %d input bytes had come through (all correct so far)", tag, len(gotIn), len(wantIn))
				return false
			}
			if !bytes.Equal(gotOut, wantOut) {
				i := vfLCP(gotOut, wantOut)
				c.Viol("c05-output-not-transparent:"+tag, "%s: terminal side received %d bytes, server wrote %d; first difference at %d: got %q want %q", tag, len(gotOut), len(wantOut), i, vfHead(gotOut[vfMin(i, len(gotOut)):], 60), vfHead(wantOut[vfMin(i, len(wantOut)):], 60))
				return false
			}
			if !bytes.Equal(gotIn, wantIn) {
				i := vfLCP(gotIn, wantIn)
				c.Viol("c05-input-not-transparent:"+tag, "%s: server side received %d bytes, user typed %d; first difference at %d: got %q want %q", tag, len(gotIn), len(wantIn), i, vfHead(gotIn[vfMin(i, len(gotIn)):], 60), vfHead(wantIn[vfMin(i, len(wantIn)):], 60))
				return false
			}
			c.Obs("probe_bytes_out", int64(len(wantOut)))
			c.Obs("probe_bytes_in", int64(len(wantIn)))
			c.Obs("probes", 1)
			return true
		}
		time.Sleep(time.Millisecond)
	}
}

// ---- stream generators

func vfOutChunks(r *vfRand, opts TrzszOptions, n int) [][]byte {
	var out [][]byte
	realTrig := "\x1b7\x07::TRZSZ:TRANSFER:S:1.1.5:012345678901200:12345\r\n"
	for len(out) < n {
		var ch []byte
		switch r.Intn(9) {
		case 0:
			ch = r.Bytes(1 + r.Intn(r.PickInt(8, 200, 5000, 32768)))
		case 1: // terminal escape soup
			for k := 0; k < 1+r.Intn(20); k++ {
				ch = append(ch, []string{"\x1b[0m", "\x1b[1;32m", "\x1b[2K\r", "\x1b]0;title\x07", "\x1b[?25l", "\x1bP=1s\x1b\\", "text ", "\r\n", "\x1b7", "\x1b8", "\x07"}[r.Intn(11)]...)
			}
		case 2: // near-miss triggers: one edit of a real trigger line
			ch = []byte(vfMutate(r, realTrig))
		case 3: // trigger split across two reads
			k := 5 + r.Intn(len(realTrig)-10)
			if v, _, _ := vfModelDetect([]byte(realTrig[:k]), false, false, false, &vfIDHistory{}); v != 0 {
				k = 5 + r.Intn(15) // the first part must not be a complete trigger by itself
			}
			out = append(out, []byte(realTrig[:k]))
			ch = []byte(realTrig[k:])
		case 4:
			ch = []byte([]string{"::TRZSZ:TRANSFER:", "::TRZSZ:TRANSFER:S:", "::TRZSZ:TRANSFER:S:1.1", "TRZSZ", "::TRZSZ:TRANSFER:X:1.1.5:1\r\n", realTrig + strings.Repeat("x", 30) + "Saved 1 file\r\n"}[r.Intn(6)])
		case 5: // zmodem-like fragments that must not start a session
			ch = []byte([]string{"**\x18B0", "**\x18B0" + "0123456789a", "**\x18B00000000000000\x18\x18\x18\x18\x18\x18\x18\x18", "**\x18B0100000023be50\r\x8a cannot open /x\r\n", "*\x18B00000000000000", "**\x18B02000000000000"}[r.Intn(6)])
		case 6: // OSC 52 fragments
			ch = []byte([]string{"\x1b]52;c;", "\x1b]52;c;aGVsbG8=\x07", "\x1b]52;c;aGVsbG8", "\x1b]52;p;!!!notbase64\x1b\\", "\x1b]52;x;abc\x07", "\x1b]52;c;" + strings.Repeat("QUJD", 2000), "\x1b]52;c;AAAA\x1b]52;c;BBBB\x07"}[r.Intn(7)])
			if r.Intn(2) == 0 && len(ch) < 100 { // the read ends anywhere inside the sequence; the rest arrives in the next read
				k := 1 + r.Intn(len(ch))
				out = append(out, ch[:k])
				ch = ch[k:]
			}
		case 7: // trace-log marker near misses
			ch = []byte([]string{"<ENABLE_TRZSZ_TRACE_LOG", "ENABLE_TRZSZ_TRACE_LOG>", "<ENABLE_TRZSZ_TRACE_LOG >", "<DISABLE_TRZSZ_TRACE_LOG>", "<enable_trzsz_trace_log>"}[r.Intn(5)])
		default:
			ch = []byte(fmt.Sprintf("user@host:~$ ls -l /tmp/%d\r\n", r.Intn(1000)))
		}
		if len(ch) == 0 {
			continue
		}
		if len(ch) > 32*1024 {
			ch = ch[:32*1024] // one read of the filter holds at most 32 KiB
		}
		// keep to the property's premise: no genuine trigger, no genuine zmodem start, no trace marker that is armed
		if v, _, _ := vfModelDetect(ch, false, false, false, &vfIDHistory{}); v != 0 {
			continue
		}
		if opts.EnableZmodem && detectZmodemModel(ch) {
			continue
		}
		if opts.DetectTraceLog && bytes.Contains(ch, []byte("<ENABLE_TRZSZ_TRACE_LOG>")) {
			continue
		}
		out = append(out, ch)
	}
	return out
}

// detectZmodemModel: a start header "**\x18B0" (0|1) + 12 hex digits with neither a cancel run nor "cannot open ".
func detectZmodemModel(b []byte) bool {
	if bytes.Contains(b, []byte("\x18\x18\x18\x18\x18")) || bytes.Contains(b, []byte("cannot open ")) {
		return false
	}
	for i := 0; i+18 <= len(b); i++ {
		if string(b[i:i+5]) == "**\x18B0" && (b[i+5] == '0' || b[i+5] == '1') {
			ok := true
			for k := i + 6; k < i+18; k++ {
				if !(vfIsDigit(b[k]) || b[k] >= 'a' && b[k] <= 'f') {
					ok = false
				}
			}
			if ok {
				return true
			}
		}
	}
	return false
}

func vfInChunks(r *vfRand, n int) [][]byte {
	var in [][]byte
	for len(in) < n {
		var ch []byte
		switch r.Intn(7) {
		case 0:
			ch = r.Bytes(1 + r.Intn(r.PickInt(4, 100, 4000)))
		case 1:
			ch = []byte([]string{"/nonexistent/file.txt ", "'/no such dir/x y' ", "/tmp/vf-does-not-exist-1 /tmp/vf-does-not-exist-2 ", "/", "'/", "/a ", "C:\\Users\\x\\file.txt"}[r.Intn(7)])
		case 2:
			ch = []byte("\x1b[200~/nonexistent/pasted path \x1b[201~")
		case 3:
			ch = []byte([]string{"\x03", "q", "\r", "\x1b[A", "\x1b[B", "\t", "send -t %1 0x3\r"}[r.Intn(7)])
		case 4:
			ch = []byte("ls -la\r")
		case 5:
			ch = []byte("\x1b[200~\x1b[201~")
		default:
			ch = []byte(strings.Repeat("k", 1+r.Intn(300)))
		}
		in = append(in, ch)
	}
	return in
}

// ---- transfer episodes on the long-lived filter

func (r *vfFilterRig) episode(kind string, work string) bool {
	c := r.c
	f := r.filter
	src := filepath.Join(work, "src-"+kind)
	dst := filepath.Join(work, "dst-"+kind)
	os.MkdirAll(src, 0755)
	os.MkdirAll(dst, 0755)
	os.WriteFile(filepath.Join(src, "f.bin"), vfNewRand(c.ID, kind).Bytes(200000), 0644)
	f.SetDefaultDownloadPath(dst)
	os.Unsetenv("VF_ZENITY")
	si0 := r.siSink.Len()
	var st *trzszTransfer
	done := make(chan error, 1)
	startServer := func(timeout int, slowGate func()) {
		st = newTransfer(r.serverOut, nil, false, nil)
		r.attach(func(p []byte) { st.addReceivedData(p, false) })
		go func() {
			files, err := checkPathsReadable([]string{filepath.Join(src, "f.bin")}, false)
			if err == nil {
				if slowGate != nil {
					slowGate()
				}
				args := &tszArgs{baseArgs: baseArgs{Quiet: false, Bufsize: bufferSize{1024}, Timeout: timeout}}
				err = sendFiles(st, files, args, noTmuxMode, -1)
			}
			if err != nil {
				st.serverError(err)
			}
			st.cleanup()
			done <- err
		}()
	}
	scripted := func(reply string) {
		// a scripted server: answers the first complete line from the client with reply
		var buf []byte
		answered := false
		r.attach(func(p []byte) {
			buf = append(buf, p...)
			if !answered && bytes.IndexByte(buf, '\n') >= 0 {
				answered = true
				if reply != "" {
					r.serverOut.Write([]byte(reply))
				}
			}
		})
	}
	switch kind {
	case "success":
		startServer(20, nil)
		r.serverOut.WriteAtomic([]byte(r.trigger("S", kTrzszVersion)))
		select {
		case err := <-done:
			if err != nil {
				c.Inconc("history transfer failed: %v", err)
				return false
			}
		case <-time.After(60 * time.Second):
			c.Slow("c05-history-timeout", "history transfer did not finish")
			return false
		}
	case "peer-fail":
		scripted("#FAIL:" + encodeString("No such file: /srv/x") + "\n")
		r.serverOut.WriteAtomic([]byte(r.trigger("S", kTrzszVersion)))
	case "malformed-cfg":
		scripted("#CFG:!!!this-is-not-base64\n")
		r.serverOut.WriteAtomic([]byte(r.trigger("S", kTrzszVersion)))
	case "wrong-type":
		scripted("#NUM:5\n")
		r.serverOut.WriteAtomic([]byte(r.trigger("S", kTrzszVersion)))
	case "local-refusal":
		f.SetDefaultDownloadPath(filepath.Join(work, "no", "such", "dir"))
		scripted("")
		r.serverOut.WriteAtomic([]byte(r.trigger("S", kTrzszVersion)))
	case "user-cancel":
		f.SetDefaultDownloadPath("")
		scripted("")
		r.serverOut.WriteAtomic([]byte(r.trigger("S", kTrzszVersion)))
	case "upload-cancel":
		scripted("")
		r.serverOut.WriteAtomic([]byte(r.trigger("R", kTrzszVersion)))
	case "ctrl-c-old", "ctrl-c-keep", "ctrl-c-delete", "ctrl-c-continue":
		ver := kTrzszVersion
		if kind == "ctrl-c-old" {
			ver = "1.1.0"
		}
		gate := make(chan struct{})
		startServer(20, func() { <-gate })
		r.serverOut.WriteAtomic([]byte(r.trigger("S", ver)))
		// wait until the client registered the transfer, then let the data flow and interrupt
		deadline := time.Now().Add(10 * time.Second)
		for !f.IsTransferringFiles() && time.Now().Before(deadline) {
			time.Sleep(time.Millisecond)
		}
		close(gate)
		time.Sleep(30 * time.Millisecond)
		r.clientIn.WriteAtomic([]byte{0x03})
		if kind != "ctrl-c-old" {
			time.Sleep(300 * time.Millisecond) // the prompt goroutine starts
			switch kind {
			case "ctrl-c-keep":
				r.clientIn.WriteAtomic([]byte("\r"))
			case "ctrl-c-delete":
				r.clientIn.WriteAtomic([]byte("j"))
				time.Sleep(50 * time.Millisecond)
				r.clientIn.WriteAtomic([]byte("\r"))
			case "ctrl-c-continue":
				r.clientIn.WriteAtomic([]byte("q"))
			}
		}
		select {
		case <-done:
		case <-time.After(60 * time.Second):
			c.Slow("c05-history-timeout", "interrupted history transfer did not finish (%s)", kind)
			return false
		}
	}
	// the client has reacted to the trigger once it has written its first line to the server
	for deadline := time.Now().Add(20 * time.Second); r.siSink.Len() == si0 && time.Now().Before(deadline); {
		time.Sleep(2 * time.Millisecond)
	}
	if r.siSink.Len() == si0 {
		c.Viol("c05-no-reaction:"+kind, "the filter wrote nothing to the server within 20 s of the trigger (episode %q)", kind)
		return false
	}
	if !r.waitIdle(30 * time.Second) {
		var frames []string
		for _, g := range vfCaseGoroutines(c.ID) {
			for _, fn := range g.Frames {
				if strings.Contains(fn, "trzsz-go/trzsz.") && !vfIsHarnessFunc("trzsz."+fn[strings.Index(fn, "trzsz-go/trzsz.")+len("trzsz-go/trzsz."):]) {
					frames = append(frames, fn[strings.Index(fn, "trzsz-go/trzsz.")+len("trzsz-go/trzsz."):])
					break
				}
			}
		}
		c.Viol("c05-not-idle-after:"+kind, "filter still reports a transfer (or its handler is still running) 30 s after the episode %q ended; goroutines in product code: %v", kind, frames)
		return false
	}
	r.attach(nil)
	// the server's own final output (e.g. its message) is not part of the probe; settle
	time.Sleep(20 * time.Millisecond)
	if f.IsTransferringFiles() {
		c.Viol("c05-still-transferring:"+kind, "IsTransferringFiles() is true after episode %q", kind)
		return false
	}
	c.Obs("history_"+kind, 1)
	return true
}

// abortedDrag: a drag of an existing path followed at once by ordinary typing cancels the pending
// upload; the typed text must reach the server unchanged, nothing may be injected and the remote
// output must keep flowing.
func (r *vfFilterRig) abortedDrag(work string) bool {
	c := r.c
	existing := filepath.Join(work, "dragged file.bin")
	os.WriteFile(existing, []byte("x"), 0644)
	i0, o0 := r.siSink.Len(), r.clientOut.Len()
	r.clientIn.WriteAtomic([]byte("'" + existing + "' "))
	time.Sleep(20 * time.Millisecond)
	typed := []byte("als\r")
	r.clientIn.WriteAtomic(typed)
	var wantOut []byte
	for k := 0; k < 45; k++ { // 45 x 15 ms covers the 300 ms delay and the 200 ms window behind it
		ch := []byte(fmt.Sprintf("o%02d;", k))
		r.serverOut.WriteAtomic(ch)
		wantOut = append(wantOut, ch...)
		time.Sleep(15 * time.Millisecond)
	}
	deadline := time.Now().Add(5 * time.Second)
	for r.clientOut.Len()-o0 < len(wantOut) && time.Now().Before(deadline) {
		time.Sleep(2 * time.Millisecond)
	}
	gotIn := r.siSink.Bytes()[i0:]
	gotOut := r.clientOut.Bytes()[o0:]
	if !bytes.Equal(gotIn, typed) {
		c.Viol("c05-input-not-transparent:aborted-drag", "after a drag that the user cancelled by typing, the server received %q instead of the typed %q", vfHead(gotIn, 80), typed)
		return false
	}
	if !bytes.Equal(gotOut, wantOut) {
		i := vfLCP(gotOut, wantOut)
		c.Viol("c05-output-not-transparent:aborted-drag", "remote output was dropped or altered around a cancelled drag: first difference at %d, got %q want %q", i, vfHead(gotOut[vfMin(i, len(gotOut)):], 40), vfHead(wantOut[vfMin(i, len(wantOut)):], 40))
		return false
	}
	c.Obs("history_aborted-drag", 1)
	return true
}

// nearDrag: input that starts with existing local paths but is not *entirely* a list of them (a short tail
// follows) is ordinary typing: it must reach the server unchanged and nothing may be injected afterwards.
func (r *vfFilterRig) nearDrag(work string, rr *vfRand) bool {
	c := r.c
	plain := filepath.Join(work, "neardrag.bin")
	spaced := filepath.Join(work, "near drag.bin")
	os.WriteFile(plain, []byte("x"), 0644)
	os.WriteFile(spaced, []byte("x"), 0644)
	forms := []string{plain + " ", "'" + spaced + "' ", plain + " '" + spaced + "' "}
	tails := []string{"x ", "ab ", "x", "-l ", "xyz ", "\r", "| ", "~ "}
	for n := 0; n < 3; n++ {
		in := forms[rr.Intn(len(forms))] + tails[rr.Intn(len(tails))]
		i0 := r.siSink.Len()
		r.clientIn.WriteAtomic([]byte(in))
		for dl := time.Now().Add(3 * time.Second); r.siSink.Len()-i0 < len(in) && time.Now().Before(dl); {
			time.Sleep(2 * time.Millisecond)
		}
		time.Sleep(700 * time.Millisecond) // a drag wrongly taken as pending would fire by now
		got := append([]byte(nil), r.siSink.Bytes()[i0:]...)
		if !bytes.Equal(got, []byte(in)) {
			c.Viol("c05-input-not-transparent:near-drag", "typed input %q (existing paths followed by other text) reached the server as %q", in, vfHead(got, 120))
			return false
		}
	}
	c.Obs("history_near-drag", 1)
	return true
}

// firedDrag: a drag of an existing path that the user does not cancel makes the filter interrupt the
// remote shell and type the upload command (the documented exception).  The remote has no trz: its
// echo comes merged with the error text in one chunk (or, variant, as a chunk of its own, which the
// filter may blank).  Once the drag window (3 s) is over the wrapper must be transparent again, also
// for output chunks that happen to equal the upload command.
func (r *vfFilterRig) firedDrag(work string, echoAlone bool) bool {
	c := r.c
	existing := filepath.Join(work, "dragged fired.bin")
	os.WriteFile(existing, []byte("x"), 0644)
	i0 := r.siSink.Len()
	r.clientIn.WriteAtomic([]byte("'" + existing + "' "))
	deadline := time.Now().Add(10 * time.Second)
	for !bytes.HasSuffix(r.siSink.Bytes()[i0:], []byte("trz\r")) && time.Now().Before(deadline) {
		time.Sleep(5 * time.Millisecond)
	}
	gotIn := append([]byte(nil), r.siSink.Bytes()[i0:]...)
	if !bytes.Equal(gotIn, []byte("\x03trz\r")) {
		if len(gotIn) < 5 && bytes.HasPrefix([]byte("\x03trz\r"), gotIn) {
			c.Slow("c05-drag-not-fired", "10 s after an uncancelled drag the server had only received %q", gotIn)
		} else {
			c.Viol("c05-input-not-transparent:fired-drag", "an uncancelled drag of one existing path made the server receive %q (expected the interrupt and the upload command only)", vfHead(gotIn, 80))
		}
		return false
	}
	o0 := r.clientOut.Len()
	var wantOut []byte
	if echoAlone {
		r.serverOut.WriteAtomic([]byte("trz\r\n"))
		wantOut = append(wantOut, "\r\n"...)
		time.Sleep(30 * time.Millisecond)
		ch := []byte("bash: trz: command not found\r\n$ ")
		r.serverOut.WriteAtomic(ch)
		wantOut = append(wantOut, ch...)
	} else {
		ch := []byte("trz\r\nbash: trz: command not found\r\n$ ")
		r.serverOut.WriteAtomic(ch)
		wantOut = append(wantOut, ch...)
	}
	time.Sleep(3300 * time.Millisecond) // the drag window closes 3 s after the command was typed
	for _, ch := range []string{"trz", "trz\r\n", "$ "} {
		r.serverOut.WriteAtomic([]byte(ch))
		wantOut = append(wantOut, ch...)
		time.Sleep(20 * time.Millisecond)
	}
	deadline = time.Now().Add(5 * time.Second)
	for r.clientOut.Len()-o0 < len(wantOut) && time.Now().Before(deadline) {
		time.Sleep(2 * time.Millisecond)
	}
	gotOut := r.clientOut.Bytes()[o0:]
	if !bytes.Equal(gotOut, wantOut) {
		i := vfLCP(gotOut, wantOut)
		if i == len(gotOut) {
			time.Sleep(2 * time.Second)
			gotOut = r.clientOut.Bytes()[o0:]
			i = vfLCP(gotOut, wantOut)
		}
		c.Viol("c05-output-not-transparent:fired-drag", "remote output after a drag upload command that the remote did not know (echo alone=%v): first difference at %d, got %q want %q", echoAlone, i, vfHead(gotOut[vfMin(i, len(gotOut)):], 40), vfHead(wantOut[vfMin(i, len(wantOut)):], 40))
		return false
	}
	if r.filter.IsTransferringFiles() {
		c.Viol("c05-still-transferring:fired-drag", "IsTransferringFiles() is true after the drag window closed")
		return false
	}
	c.Obs("history_fired-drag", 1)
	return true
}

var vfEpisodeKinds = []string{"success", "peer-fail", "malformed-cfg", "wrong-type", "local-refusal", "user-cancel", "upload-cancel", "ctrl-c-old", "ctrl-c-keep", "ctrl-c-delete", "ctrl-c-continue"}

func TestVF_C05(t *testing.T) {
	writeToClipboard = func(buf []byte) {} // the clipboard side effect is outside the streams
	if os.Getenv("VF_PROCS") != "" {
		vfRunCases(t, "C05", vfPtyCases(), 2, 200*time.Second)
		return
	}
	var cases []vfCase
	ns := vfPick(320, 4000)
	for i := 0; i < ns; i++ {
		i := i
		cases = append(cases, vfCase{ID: fmt.Sprintf("stream-%d", i), Run: func(c *vfCtx) {
			r := c.R
			o := i % 16
			opts := TrzszOptions{DetectDragFile: o&1 != 0, DetectTraceLog: o&2 != 0, EnableZmodem: o&4 != 0, EnableOSC52: o&8 != 0}
			rig := vfNewFilterRig(c, opts)
			defer rig.Close()
			for round := 0; round < 3; round++ {
				if !rig.probe(fmt.Sprintf("opts%d", o), vfOutChunks(r, opts, 6+r.Intn(10)), vfInChunks(r, 4+r.Intn(8))) {
					c.Replay(map[string]interface{}{"opts": o, "round": round})
					return
				}
			}
			c.Nontrivial(fmt.Sprintf("stream opts=%d #%d", o, i))
			if i < 3 {
				c.Sample(map[string]interface{}{"kind": "stream", "options": opts, "rounds": 3})
			}
		}})
	}
	nh := vfPick(44, 440)
	for i := 0; i < nh; i++ {
		i := i
		cases = append(cases, vfCase{ID: fmt.Sprintf("history-%d", i), Run: func(c *vfCtx) {
			r := c.R
			o := r.Intn(16) &^ 4 // zmodem histories belong to C19
			opts := TrzszOptions{DetectDragFile: o&1 != 0, DetectTraceLog: o&2 != 0, EnableZmodem: false, EnableOSC52: o&8 != 0}
			rig := vfNewFilterRig(c, opts)
			defer rig.Close()
			if !rig.probe("fresh", vfOutChunks(r, opts, 5), vfInChunks(r, 4)) {
				return
			}
			var hist []string
			n := 1 + r.Intn(4)
			for k := 0; k < n; k++ {
				kind := vfEpisodeKinds[(i+k*5+r.Intn(2))%len(vfEpisodeKinds)]
				if opts.DetectDragFile && (i+k)%3 == 0 {
					hist = append(hist, "aborted-drag")
					if !rig.abortedDrag(c.Dir) {
						c.Replay(map[string]interface{}{"history": hist, "opts": o})
						return
					}
					if !rig.probe("after-aborted-drag", vfOutChunks(r, opts, 6), vfInChunks(r, 5)) {
						c.Replay(map[string]interface{}{"history": hist, "opts": o})
						return
					}
				}
				if opts.DetectDragFile && (i+k)%4 == 2 {
					hist = append(hist, "near-drag")
					if !rig.nearDrag(c.Dir, r) {
						c.Replay(map[string]interface{}{"history": hist, "opts": o})
						return
					}
				}
				if opts.DetectDragFile && (i+k)%5 == 1 {
					echoAlone := (i/5)%2 == 0
					hist = append(hist, fmt.Sprintf("fired-drag(echo alone=%v)", echoAlone))
					if !rig.firedDrag(c.Dir, echoAlone) {
						c.Replay(map[string]interface{}{"history": hist, "opts": o})
						return
					}
					if !rig.probe("after-fired-drag", vfOutChunks(r, opts, 6), vfInChunks(r, 5)) {
						c.Replay(map[string]interface{}{"history": hist, "opts": o})
						return
					}
				}
				hist = append(hist, kind)
				if !rig.episode(kind, c.Dir) {
					c.Replay(map[string]interface{}{"history": hist, "opts": o})
					return
				}
				if !rig.probe("after-"+kind, vfOutChunks(r, opts, 6), vfInChunks(r, 5)) {
					c.Replay(map[string]interface{}{"history": hist, "opts": o})
					return
				}
			}
			c.Nontrivial(fmt.Sprintf("history %v opts=%d", hist, o))
			c.SetAdd("histories", strings.Join(hist, ">"))
			if i < 3 {
				c.Sample(map[string]interface{}{"kind": "history", "episodes": hist, "options": opts})
			}
		}})
	}
	vfRunCases(t, "C05", cases, 3, 300*time.Second)
}
