//go:build verif

package trzsz

import (
	"bytes"
	"encoding/base64"
	"encoding/json"
	"fmt"
	"os"
	"path/filepath"
	"strings"
	"sync"
	"testing"
	"time"
)

type vfAttack struct {
	From  string `json:"from"` // which side's outgoing line is rewritten: client or server (the other side is attacked)
	Type  string `json:"type"` // message type
	Occ   int    `json:"occurrence"`
	Field string `json:"field"` // JSON field, "int" (whole integer payload), "ack-len", "ack-step", "raw"
	Value string `json:"value"`
}

var vfBoundary = []string{"-1", "0", "1", "2147483647", "2147483648", "4611686018427387904", "9223372036854775807", "99999999999999999999", "abc", "", "BIG"}

func vfBig() string { return strings.Repeat("7", 1<<20) }

func vfJSONValue(v string) interface{} {
	if v == "BIG" {
		v = vfBig()
	}
	var n json.Number
	if err := json.Unmarshal([]byte(v), &n); err == nil && v != "" {
		return json.RawMessage(v)
	}
	return v // as a string (wrong type for numeric fields)
}

// vfApplyAttack rewrites one protocol line. ok=false means the line is not the target shape.
func vfApplyAttack(a vfAttack, line []byte) ([]byte, bool) {
	nl := "\n"
	body := bytes.TrimSuffix(line, []byte("\n"))
	if bytes.HasSuffix(body, []byte("!")) {
		nl = "!\n"
		body = bytes.TrimSuffix(body, []byte("!"))
	}
	i := bytes.IndexByte(body, ':')
	if i < 0 {
		return line, false
	}
	head, payload := string(body[:i+1]), string(body[i+1:])
	val := a.Value
	if val == "BIG" {
		val = vfBig()
	}
	switch a.Field {
	case "int":
		return []byte(head + val + nl), true
	case "ack-len", "ack-step":
		parts := strings.Split(payload, "/")
		if len(parts) != 2 {
			return line, false
		}
		if a.Field == "ack-len" {
			parts[0] = val
		} else {
			parts[1] = val
		}
		return []byte(head + strings.Join(parts, "/") + nl), true
	case "ack-extra":
		return []byte(head + payload + "/" + val + nl), true
	case "raw":
		switch a.Value {
		case "trunc-b64":
			if len(payload) < 4 {
				return line, false
			}
			return []byte(head + payload[:len(payload)/2|1] + nl), true
		case "bad-b64":
			return []byte(head + "!!!" + payload + nl), true
		case "bad-zlib":
			return []byte(head + base64.StdEncoding.EncodeToString([]byte("this is not zlib data at all")) + nl), true
		case "trunc-zlib":
			raw, err := base64.StdEncoding.DecodeString(payload)
			if err != nil || len(raw) < 8 {
				return line, false
			}
			return []byte(head + base64.StdEncoding.EncodeToString(raw[:len(raw)-5]) + nl), true
		case "trunc-json":
			dec, err := decodeString(payload)
			if err != nil || len(dec) < 4 {
				return line, false
			}
			return []byte(head + encodeString(string(dec[:len(dec)/2])) + nl), true
		case "empty":
			return []byte(head + nl), true
		case "wrong-type":
			return []byte("#HUH:" + payload + nl), true
		case "no-colon":
			return []byte("#" + nl), true
		case "colon-first": // the colon is the very first byte of the line
			return []byte(":" + payload + nl), true
		case "colon-only":
			return []byte(":" + nl), true
		case "hash-colon": // an empty type
			return []byte("#:" + payload + nl), true
		case "no-hash":
			return []byte(strings.TrimPrefix(head, "#") + payload + nl), true
		case "long-line":
			return []byte(head + strings.Repeat("A", 3<<20) + nl), true
		case "json-array":
			return []byte(head + encodeString("[1,2,3]") + nl), true
		case "json-null":
			return []byte(head + encodeString("null") + nl), true
		case "json-deep":
			return []byte(head + encodeString(strings.Repeat("[", 100000)) + nl), true
		}
		return line, false
	default: // a JSON field inside an encoded string payload
		dec, err := decodeString(payload)
		if err != nil {
			return line, false
		}
		var m map[string]interface{}
		if json.Unmarshal(dec, &m) != nil {
			return line, false
		}
		if strings.HasPrefix(a.Value, "JSON:") {
			m[a.Field] = json.RawMessage(a.Value[5:])
		} else {
			m[a.Field] = vfJSONValue(a.Value)
		}
		enc, err := json.Marshal(m)
		if err != nil {
			return line, false
		}
		return []byte(head + encodeString(string(enc)) + nl), true
	}
}

func vfAttackList() []vfAttack {
	var out []vfAttack
	add := func(from, typ string, occ int, field string, values ...string) {
		for _, v := range values {
			out = append(out, vfAttack{from, typ, occ, field, v})
		}
	}
	raws := []string{"trunc-b64", "bad-b64", "bad-zlib", "trunc-zlib", "trunc-json", "empty", "wrong-type", "no-colon", "colon-first", "colon-only", "hash-colon", "no-hash", "long-line", "json-array", "json-null", "json-deep"}
	for _, from := range []string{"client", "server"} {
		// the sender of each message type depends on the direction; both are listed, unreachable ones are skipped at run time
		add(from, "ACT", 0, "protocol", vfBoundary...)
		add(from, "ACT", 0, "newline", "", "\r", "abc", "JSON:123", "JSON:null", "BIG")
		add(from, "ACT", 0, "binary", "JSON:\"yes\"", "JSON:1", "JSON:null")
		add(from, "ACT", 0, "confirm", "JSON:\"true\"", "JSON:7")
		add(from, "ACT", 0, "raw", raws...)
		add(from, "CFG", 0, "bufsize", vfBoundary...)
		add(from, "CFG", 0, "timeout", vfBoundary...)
		add(from, "CFG", 0, "protocol", vfBoundary...)
		add(from, "CFG", 0, "tmux_pane_width", "-1", "0", "1", "2", "4", "2147483647", "2147483648", "abc")
		add(from, "CFG", 0, "compress", "-1", "3", "99", "abc")
		add(from, "CFG", 0, "escape_chars", "JSON:[[\"a\"]]", "JSON:[[\"ab\",\"\\u00eec\"]]", "JSON:[[\"a\",\"bc\"]]", "JSON:[[\"\\u4e2d\",\"\\u00eea\"]]", "JSON:[1,2]", "JSON:\"x\"", "JSON:[[\"a\",\"\\u00ee\"]]", "JSON:[[1,2]]", "JSON:{}", "JSON:[[\"a\",\"\\u00eeb\"],[\"a\",\"\\u00eeb\"]]")
		add(from, "CFG", 0, "binary", "JSON:\"x\"", "JSON:5")
		add(from, "CFG", 0, "newline", "", "abc", "JSON:5")
		add(from, "CFG", 0, "raw", raws...)
		add(from, "NUM", 0, "int", vfBoundary...)
		add(from, "NUM", 0, "raw", "wrong-type", "no-colon", "empty", "colon-first", "hash-colon")
		for occ := 0; occ < 2; occ++ {
			add(from, "NAME", occ, "size", vfBoundary...)
			add(from, "NAME", occ, "perm", "-1", "4294967295", "4294967296", "abc", "JSON:null")
			add(from, "NAME", occ, "path_id", "-1", "2147483648", "9223372036854775807", "abc")
			add(from, "NAME", occ, "path_name", "JSON:[]", "JSON:null", "JSON:\"x\"", "JSON:[1]", "JSON:[\""+strings.Repeat("n", 5000)+"\"]", "JSON:[\"a\",\"b\",\"c\",\"d\",\"e\",\"f\",\"g\",\"h\"]")
			add(from, "NAME", occ, "is_dir", "JSON:\"x\"", "JSON:true")
			add(from, "NAME", occ, "archive", "JSON:true", "JSON:\"x\"")
			add(from, "NAME", occ, "raw", raws...)
			add(from, "SIZE", occ, "int", vfBoundary...)
			add(from, "MD5", occ, "raw", "trunc-b64", "bad-b64", "bad-zlib", "empty", "wrong-type", "long-line", "colon-first", "no-colon")
			add(from, "COMP", occ, "int", "", "maybe", "TRUE", "1")
			add(from, "HASH", occ, "step", vfBoundary...)
			add(from, "HASH", occ, "hash", "", "abc", "JSON:5", "BIG")
			add(from, "HASH", occ, "over", "JSON:\"x\"", "JSON:1")
			add(from, "HASH", occ, "raw", "trunc-json", "bad-b64", "json-array", "json-null")
		}
		for occ := 0; occ < 3; occ++ {
			add(from, "DATA", occ, "int", vfBoundary...) // binary framing: the block length
			add(from, "DATA", occ, "raw", "bad-b64", "trunc-b64", "empty", "wrong-type", "long-line", "bad-zlib", "no-colon", "colon-first", "colon-only", "hash-colon", "no-hash")
		}
		for occ := 0; occ < 9; occ++ {
			add(from, "SUCC", occ, "int", vfBoundary...)
			add(from, "SUCC", occ, "ack-len", vfBoundary...)
			add(from, "SUCC", occ, "ack-step", vfBoundary...)
			add(from, "SUCC", occ, "ack-extra", "1")
			add(from, "SUCC", occ, "raw", "bad-b64", "trunc-b64", "trunc-json", "empty", "wrong-type", "json-array", "json-null", "long-line", "no-colon", "colon-first", "colon-only", "hash-colon", "no-hash")
			add(from, "SUCC", occ, "size", "-1", "9223372036854775807", "abc") // target-file reply of protocol 3/4
			add(from, "SUCC", occ, "name", "JSON:5", "JSON:null", "BIG")
			add(from, "SUCC", occ, "step", vfBoundary...) // hash ack
			add(from, "SUCC", occ, "match", "JSON:\"x\"")
		}
		add(from, "EXIT", 0, "raw", raws...)
	}
	return out
}

func vfAttackScenarios() []vfScenario {
	files := []vfFileSpec{{Rel: "first.bin", Size: 30000, Content: "rand"}, {Rel: "second.bin", Size: 200000, Content: "rand"}}
	var sc []vfScenario
	add := func(name string, cfg vfCfg, tops []string, specs []vfFileSpec) {
		cfg.Timeout = 2
		cfg.Bufsize = 8192
		sc = append(sc, vfScenario{Name: name, Cfg: cfg, Tops: tops, Specs: specs})
	}
	add("down-p4", vfCfg{Dir: "down"}, []string{"first.bin", "second.bin"}, files)
	add("up-p4-bin", vfCfg{Dir: "up", Binary: true, Escape: true}, []string{"first.bin", "second.bin"}, files)
	add("down-p3-bin-y", vfCfg{Dir: "down", Protocol: 3, Binary: true, Overwrite: true, Quiet: true}, []string{"first.bin", "second.bin"}, files)
	add("up-p3-y", vfCfg{Dir: "up", Protocol: 3, Overwrite: true}, []string{"first.bin", "second.bin"}, files)
	add("down-p2-bin", vfCfg{Dir: "down", Protocol: 2, Binary: true}, []string{"first.bin"}, files[:1])
	add("up-p1", vfCfg{Dir: "up", Protocol: 1, Quiet: true}, []string{"first.bin"}, files[:1])
	add("down-p1-bin", vfCfg{Dir: "down", Protocol: 1, Binary: true}, []string{"first.bin"}, files[:1])
	add("up-p4-dir", vfCfg{Dir: "up", Directory: true}, []string{"first.bin", "second.bin"}, files)
	return sc
}

func TestVF_C12(t *testing.T) {
	writeToClipboard = func(buf []byte) {}
	attacks := vfAttackList()
	scs := vfAttackScenarios()
	var cases []vfCase
	stride := vfPick(5, 1)
	n := 0
	for ai, a := range attacks {
		for si, sc := range scs {
			n++
			if (ai*7+si*3+vfSeed)%stride != 0 {
				continue
			}
			ai, a, si, sc := ai, a, si, sc
			cases = append(cases, vfCase{ID: fmt.Sprintf("%s/%s-%s#%d.%s=%s", sc.Name, a.From, a.Type, a.Occ, a.Field, vfSafeName(vfHeadS(a.Value, 24))), Run: func(c *vfCtx) {
				vfAttackCase(c, sc, a, ai, si)
			}})
		}
	}
	// entry headers inside an archive stream (they travel inside DATA, out of reach of the line mutator): hostile
	// field values written straight into the real archive writer
	hdrs := vfHostileArchiveHeaders()
	for hi := range hdrs {
		hi := hi
		cases = append(cases, vfCase{ID: fmt.Sprintf("archdr-%d", hi), Run: func(c *vfCtx) {
			h := hdrs[hi]
			dest := filepath.Join(c.Dir, "dst")
			os.MkdirAll(dest, 0755)
			for variant := 0; variant < 3; variant++ {
				vd := filepath.Join(dest, fmt.Sprintf("v%d", variant))
				os.MkdirAll(vd, 0755)
				_, w, _, err := vfArchiveConsume(vd, `{"path_id":0,"path_name":["top"],"is_dir":true,"archive":true,"size":100}`)
				if err != nil || w == nil {
					c.Inconc("cannot create the archive writer: %v", err)
					return
				}
				good := encodeString(`{"path_id":0,"path_name":["top","ok.txt"],"is_dir":false,"archive":false,"size":3}`) + "\nabc"
				stream := []byte(good + encodeString(h.JSON) + "\n" + "payload bytes after the hostile header" + good)
				done := make(chan error, 1)
				go func() {
					var err error
					switch variant {
					case 0:
						err = writeAll(w, stream)
					case 1:
						for i := 0; i < len(stream) && err == nil; i++ {
							err = writeAll(w, stream[i:i+1])
						}
					default:
						for i := 0; i < len(stream) && err == nil; i += 7 {
							err = writeAll(w, stream[i:vfMin(len(stream), i+7)])
						}
					}
					w.Close()
					done <- err
				}()
				select {
				case <-done:
				case <-time.After(20 * time.Second):
					c.Viol("c12-archive-header-hang", "archive writer still busy 20 s after a stream with entry header %s", h.JSON)
					return
				}
			}
			c.SetAdd("attacked_fields", "archive-entry:"+h.Name)
			c.Nontrivial("archive entry header " + h.Name)
		}})
	}
	// unstructured input into the scanners
	nf := vfPick(40, 600)
	for i := 0; i < nf; i++ {
		i := i
		cases = append(cases, vfCase{ID: fmt.Sprintf("fuzz-%d", i), Run: func(c *vfCtx) { vfFuzzCase(c, i) }})
	}
	vfRunCases(t, "C12", cases, 1, 120*time.Second)
}

func vfHeadS(s string, n int) string {
	if len(s) > n {
		return s[:n]
	}
	return s
}

var vfAttackSrcOnce sync.Map

func vfAttackCase(c *vfCtx, sc vfScenario, a vfAttack, ai, si int) {
	src := filepath.Join(c.Dir, "src")
	if err := vfWriteTree(src, sc.Specs, vfNewRand("scenario", sc.Name)); err != nil {
		c.Inconc("%v", err)
		return
	}
	var paths []string
	for _, t := range sc.Tops {
		paths = append(paths, filepath.Join(src, t))
	}
	dst := filepath.Join(c.Dir, "dst")
	os.MkdirAll(dst, 0755)
	if sc.Cfg.Overwrite {
		// an existing longer file makes the resume hash exchange happen
		for _, t := range sc.Tops {
			os.WriteFile(filepath.Join(dst, t), vfNewRand("old", t).Bytes(50000), 0644)
		}
	}
	c.Replay(map[string]interface{}{"scenario": sc.Name, "cfg": sc.Cfg, "attack": a})
	seen := 0
	hit := false
	mut := func(index int, typ string, line []byte) []byte {
		if typ != a.Type || hit {
			return line
		}
		if seen < a.Occ {
			seen++
			return line
		}
		out, ok := vfApplyAttack(a, line)
		if !ok {
			seen++ // not the shape this attack needs (e.g. a plain ack instead of a len/step ack): try the next one
			return line
		}
		hit = true
		return out
	}
	s, so, co, fin := vfRunTransfer(c, sc.Cfg, paths, dst, 40*time.Second, func(s *vfSession) {
		if a.From == "client" {
			s.cliW().SetMutator(mut)
		} else {
			s.srvW().SetMutator(mut)
		}
	})
	if !hit {
		if fin {
			s.Close()
		}
		// the message does not occur in this scenario/direction: nothing was attacked
		c.mu.Lock()
		c.rec.St, c.rec.VSig, c.rec.Msg = "ok", "", ""
		c.mu.Unlock()
		c.Obs("attack_not_applicable", 1)
		return
	}
	attacked := "server"
	if a.From == "server" {
		attacked = "client"
	}
	if !fin {
		// recorded as slow by vfRunTransfer: the attacked role (or its peer) did not end
		c.mu.Lock()
		if c.rec.St == "slow" {
			c.rec.VSig = "c12-hang:" + attacked + ":" + a.Type + "." + a.Field
		}
		c.mu.Unlock()
		return
	}
	// the attacked role ends with a reported error (or the value was harmless and the transfer completed correctly)
	ao := so
	if attacked == "client" {
		ao = co
	}
	if ao.Kind == "success" || (so.Kind == "success" && co.Kind == "success") {
		names := vfReportedNames(sc.Cfg, so, co)
		srcTree, dstTree := vfSnapshot(src), vfSnapshot(dst)
		ok := len(names) == len(sc.Tops)
		for i := 0; ok && i < len(sc.Tops); i++ {
			ok = vfTreeSubEqual(srcTree, sc.Tops[i], dstTree, names[i]) == ""
		}
		// a peer may legitimately announce other names or fewer files: what was saved is what it said
		if ok {
			c.Obs("attacks_harmless", 1)
		} else {
			c.Obs("attacks_followed_as_told", 1)
		}
	} else {
		c.Obs("attacks_rejected_with_error", 1)
	}
	// session still usable: the filter passes a probe and a fresh transfer works
	probe := []byte(fmt.Sprintf("<<probe-%d-%d>>\n", ai, si)) // a whole line: the wire's mutator works line-wise
	time.Sleep(5 * time.Millisecond)
	o0 := s.clientOut.Len()
	s.cliR().WriteAtomic(probe)
	deadline := time.Now().Add(8 * time.Second)
	for !bytes.Contains(s.clientOut.Bytes()[vfMin(o0, s.clientOut.Len()):], probe) && time.Now().Before(deadline) {
		time.Sleep(2 * time.Millisecond)
	}
	if !bytes.Contains(s.clientOut.Bytes()[vfMin(o0, s.clientOut.Len()):], probe) {
		c.Viol("c12-session-unusable:"+a.Type+"."+a.Field, "after attack %+v the filter no longer passes remote output to the terminal (IsTransferringFiles=%v)", a, s.filter.IsTransferringFiles())
		s.Close()
		return
	}
	s.Close()
	c.SetAdd("attacked_fields", attacked+":"+a.Type+"."+a.Field)
	c.Nontrivial(fmt.Sprintf("%s %s %s#%d.%s=%s", sc.Name, a.From, a.Type, a.Occ, a.Field, vfHeadS(a.Value, 16)))
	if (ai+si)%97 == 0 {
		c.Sample(map[string]interface{}{"scenario": sc.Name, "attack": map[string]interface{}{"from": a.From, "type": a.Type, "occurrence": a.Occ, "field": a.Field, "value": vfHeadS(a.Value, 40)}, "attacked_role_outcome": ao.Kind + ": " + vfClip(ao.Text)})
	}
}

type vfHostileHdr struct{ Name, JSON string }

func vfHostileArchiveHeaders() []vfHostileHdr {
	var out []vfHostileHdr
	for _, sz := range []string{"-1", "-5", "-9223372036854775808", "9223372036854775807", "4611686018427387904", "0", "1e3", "\"7\"", "null", "2147483648"} {
		out = append(out, vfHostileHdr{"size=" + sz, `{"path_id":0,"path_name":["top","f.bin"],"is_dir":false,"archive":false,"size":` + sz + `}`})
		out = append(out, vfHostileHdr{"dir-size=" + sz, `{"path_id":0,"path_name":["top","d"],"is_dir":true,"archive":false,"size":` + sz + `}`})
	}
	for _, perm := range []string{"-1", "4294967295", "4294967296", "0", "\"x\""} {
		out = append(out, vfHostileHdr{"perm=" + perm, `{"path_id":0,"path_name":["top","p.bin"],"is_dir":false,"archive":false,"size":2,"perm":` + perm + `}`})
	}
	for _, pn := range []string{"[]", "null", "[\"top\"]", "[\"\"]", "\"top\"", "[\"top\",\"a\",\"b\",\"c\",\"d\",\"e\",\"f\",\"g\"]", "[1,2]"} {
		out = append(out, vfHostileHdr{"path_name=" + pn, `{"path_id":0,"path_name":` + pn + `,"is_dir":false,"archive":false,"size":2}`})
	}
	for _, pid := range []string{"-1", "99", "9223372036854775807", "null"} {
		out = append(out, vfHostileHdr{"path_id=" + pid, `{"path_id":` + pid + `,"path_name":["top","q.bin"],"is_dir":false,"archive":false,"size":2}`})
	}
	out = append(out, vfHostileHdr{"archive-in-archive", `{"path_id":0,"path_name":["top","inner"],"is_dir":true,"archive":true,"size":50}`})
	out = append(out, vfHostileHdr{"not-json", `{{{`}, vfHostileHdr{"empty", ``}, vfHostileHdr{"array", `[1,2,3]`})
	return out
}

// vfFuzzCase throws unstructured bytes at a filter with every option on and at the standalone scanners.
func vfFuzzCase(c *vfCtx, i int) {
	r := c.R
	rig := vfNewFilterRig(c, TrzszOptions{DetectDragFile: true, DetectTraceLog: false, EnableZmodem: i%2 == 0, EnableOSC52: true})
	defer rig.Close()
	frag := []string{"::TRZSZ:TRANSFER:", "S:", "R:", "1.1.5", ":", "\x1b]52;c;", "\x07", "**\x18B0", "0100000023be50", "\x18\x18\x18\x18\x18", "#ACT:", "#CFG:", "\n", "\r", "/tmp ", "'/", "\x1b[200~", "\x1b[201~", "send -t %1 0x3\r", "send -lt %12 abc;", "%output %1 ", "\x03"}
	n := 0
	for k := 0; k < 200; k++ {
		var ch []byte
		for j := 0; j < 1+r.Intn(6); j++ {
			if r.Intn(3) == 0 {
				ch = append(ch, r.Bytes(r.Intn(40))...)
			} else {
				ch = append(ch, frag[r.Intn(len(frag))]...)
			}
		}
		if len(ch) == 0 {
			continue
		}
		if v, _, _ := vfModelDetect(ch, false, false, false, &vfIDHistory{}); v != 0 || detectZmodemModel(ch) {
			continue // genuine triggers start handlers that wait for a user; they are C06/C19 territory
		}
		if k%2 == 0 {
			rig.serverOut.WriteAtomic(ch)
		} else {
			rig.clientIn.WriteAtomic(ch)
		}
		n++
		// the scanners directly
		detectDragFiles(append([]byte(nil), ch...))
		detectZmodem(ch)
		newTrzszDetector(k%4 == 0, k%4 == 0).detectTrzsz(append([]byte(nil), ch...), k%3 == 0)
		trimVT100(ch)
		(&trzszTransfer{}).stripTmuxStatusLine(append([]byte(nil), ch...))
	}
	// every truncation of sequences the output scanners look for, as the end of one read
	seqs := []string{"\x1b]52;c;aGVsbG8=\x07", "\x1b]52;p;QUJD\x1b\\", "x\x1b]52;c;QQ==\x07y\x1b]52;", "**\x18B0100000023be50\r\x8a\x11", "::TRZSZ:TRANSFER:S:1.1.5:1234567890123:80\r\n", "<ENABLE_TRZSZ_TRACE_LOG>", "\x1b[200~/tmp/x\x1b[201~"}
	seq := seqs[i%len(seqs)]
	for k := 1; k <= len(seq); k++ {
		ch := []byte(seq[:k])
		if v, _, _ := vfModelDetect(ch, false, false, false, &vfIDHistory{}); v != 0 || detectZmodemModel(ch) {
			continue
		}
		rig.serverOut.WriteAtomic(ch)
		rig.clientIn.WriteAtomic([]byte("\r"))
		time.Sleep(time.Millisecond)
		n++
	}
	time.Sleep(20 * time.Millisecond)
	c.Obs("fuzz_chunks", int64(n))
	c.Nontrivial(fmt.Sprintf("fuzz-%d", i))
}
