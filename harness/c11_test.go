//go:build verif

package trzsz

import (
	"fmt"
	"os"
	"path/filepath"
	"strconv"
	"strings"
	"sync"
	"testing"
	"time"
)

type vfHangPlan struct {
	Fault   string `json:"fault"` // silent, silent-both, write-fail, dest-full, dest-removed, src-truncated, src-grown, src-missing, wrong-type
	Dir     string `json:"direction"`
	Index   int    `json:"message_index"`
	Type    string `json:"message_type"`
	Timeout int    `json:"timeout"`
}

func vfInstallYieldPlan() string {
	v := os.Getenv("VF_YIELD")
	if v == "" {
		return "off"
	}
	f := strings.Split(v, ":")
	p := &vfYieldPlan{mode: f[0], seed: uint64(vfSeed)*7919 + uint64(vfShard)}
	if len(f) > 1 {
		n, _ := strconv.Atoi(f[1])
		p.pointA = n
		if n < 0 { // "point:-1": the shard number picks the point
			p.pointA = vfShard
		}
	}
	p.delay = 5 * time.Millisecond
	if len(f) > 2 {
		n, _ := strconv.Atoi(f[2])
		p.delay = time.Duration(n) * time.Millisecond
	}
	vfSetPlan(p)
	return v
}

func vfHangScenarios() []vfScenario {
	files := []vfFileSpec{{Rel: "first.bin", Size: 30000, Content: "rand"}, {Rel: "second.bin", Size: 90000, Content: "rand"}}
	dir := []vfFileSpec{{Rel: "d", Dir: true}, {Rel: "d/a.bin", Size: 50000, Content: "rand"}, {Rel: "d/sub/b.bin", Size: 40000, Content: "rand"}}
	var sc []vfScenario
	add := func(name string, cfg vfCfg, tops []string, specs []vfFileSpec) {
		cfg.Quiet = true
		cfg.Direct = true
		cfg.Bufsize = 4096
		sc = append(sc, vfScenario{Name: name, Cfg: cfg, Tops: tops, Specs: specs})
	}
	add("down-p4-b64", vfCfg{Dir: "down"}, []string{"first.bin", "second.bin"}, files)
	add("up-p4-bin", vfCfg{Dir: "up", Binary: true}, []string{"first.bin", "second.bin"}, files)
	add("down-p3-bin-y", vfCfg{Dir: "down", Protocol: 3, Binary: true, Overwrite: true}, []string{"first.bin", "second.bin"}, files)
	add("up-p2-b64", vfCfg{Dir: "up", Protocol: 2}, []string{"first.bin", "second.bin"}, files)
	add("down-p1-b64", vfCfg{Dir: "down", Protocol: 1}, []string{"first.bin"}, files[:1])
	add("up-p1-bin", vfCfg{Dir: "up", Protocol: 1, Binary: true}, []string{"first.bin"}, files[:1])
	add("down-archive", vfCfg{Dir: "down", Directory: true}, []string{"d"}, dir)
	add("up-archive", vfCfg{Dir: "up", Directory: true}, []string{"d"}, dir)
	add("up-dir-y", vfCfg{Dir: "up", Directory: true, Overwrite: true}, []string{"d"}, dir)
	// a first file that fits into one data block: its only block is also its last
	tiny := []vfFileSpec{{Rel: "tiny.bin", Size: 3000, Content: "rand"}, {Rel: "second.bin", Size: 90000, Content: "rand"}}
	add("down-tiny-p4", vfCfg{Dir: "down"}, []string{"tiny.bin", "second.bin"}, tiny)
	add("up-tiny-p3-bin", vfCfg{Dir: "up", Protocol: 3, Binary: true}, []string{"tiny.bin", "second.bin"}, tiny)
	// a file far larger than the pipeline's read-ahead, so that a change of length lands mid-read
	bigdir := []vfFileSpec{{Rel: "d", Dir: true}, {Rel: "d/a.bin", Size: 20000, Content: "rand"}, {Rel: "d/zbig.bin", Size: 12 << 20, Content: "zeros"}, {Rel: "d/zz.txt", Size: 100, Content: "text"}}
	add("big-down-archive", vfCfg{Dir: "down", Directory: true}, []string{"d"}, bigdir)
	add("big-up-archive", vfCfg{Dir: "up", Directory: true}, []string{"d"}, bigdir)
	add("big-down-files", vfCfg{Dir: "down", Directory: true, Overwrite: true, Binary: true}, []string{"d"}, bigdir)
	return sc
}

func TestVF_C11(t *testing.T) {
	yield := vfInstallYieldPlan()
	scs := vfHangScenarios()
	faults := []string{"silent", "silent", "silent", "silent-both", "write-fail", "write-fail", "dest-full", "dest-removed", "src-truncated", "src-truncated", "src-grown", "src-missing", "wrong-type"}
	var cases []vfCase
	per := vfPick(44, 900)
	if yield != "off" {
		per = vfPick(10, 120)
	}
	for si, sc := range scs {
		for k := 0; k < per; k++ {
			si, sc, k := si, sc, k
			id := fmt.Sprintf("%s-h%d", sc.Name, k)
			if yield != "off" {
				id = fmt.Sprintf("y-%s-%s-h%d", strings.ReplaceAll(yield, ":", "_"), sc.Name, k)
			}
			fault := faults[(k+si)%len(faults)]
			if strings.Contains(sc.Name, "-tiny-") && k%2 == 0 {
				fault = "dest-full" // the only block of the first file is also its last
			}
			if strings.HasPrefix(sc.Name, "big-") {
				if k >= vfPick(8, 60) {
					continue
				}
				fault = []string{"src-truncated", "src-truncated", "src-grown", "src-shrunk-before-read"}[k%4]
			}
			cases = append(cases, vfCase{ID: id, Run: func(c *vfCtx) { vfHangCase(c, si, sc, k, fault, yield) }})
		}
	}
	vfRunCases(t, "C11", cases, 3, 240*time.Second)
}

func vfHangCase(c *vfCtx, si int, sc vfScenario, k int, fault string, yield string) {
	r := c.R
	src := filepath.Join(c.Dir, "src")
	if err := vfWriteTree(src, sc.Specs, vfNewRand("scenario", sc.Name)); err != nil {
		c.Inconc("%v", err)
		return
	}
	var paths []string
	for _, t := range sc.Tops {
		paths = append(paths, filepath.Join(src, t))
	}
	bdst := filepath.Join(c.Dir, "dst-base")
	os.MkdirAll(bdst, 0755)
	bcfg := sc.Cfg
	bcfg.Timeout = 60
	bs, bso, bco, fin := vfRunTransfer(c, bcfg, paths, bdst, 120*time.Second)
	if !fin {
		return
	}
	bc2s, bs2c := bs.cliW().Msgs(), bs.srvW().Msgs()
	bs.Close()
	if bso.Kind != "success" || bco.Kind != "success" {
		c.Inconc("baseline failed: %q / %q", vfClip(bso.Text), vfClip(bco.Text))
		return
	}
	os.RemoveAll(bdst)

	plan := vfHangPlan{Fault: fault, Timeout: 1 + k%2}
	plan.Dir = []string{"c2s", "s2c"}[(k/3)%2]
	dataDir := "s2c"
	if sc.Cfg.Dir == "up" {
		dataDir = "c2s"
	}
	switch fault {
	case "dest-full", "dest-removed", "src-truncated", "src-grown", "src-shrunk-before-read":
		plan.Dir = dataDir // these act when a DATA message passes
	}
	if strings.HasPrefix(sc.Name, "big-") {
		k = k * 4 // fire at the first DATA messages: the big file must still be mid-read
	}
	msgs := bc2s
	if plan.Dir == "s2c" {
		msgs = bs2c
	}
	lo := 1
	if len(msgs) <= lo+1 {
		c.Inconc("transcript too short")
		return
	}
	switch k % 4 {
	case 0:
		plan.Index = lo + (k/4)%vfMin(14, len(msgs)-lo)
	case 1:
		plan.Index = len(msgs) - 1 - (k/4)%vfMin(8, len(msgs)-lo)
	default:
		plan.Index = lo + r.Intn(len(msgs)-lo)
	}
	if fault == "dest-full" || fault == "dest-removed" || fault == "src-truncated" || fault == "src-grown" {
		// needs a DATA message at or after the index
		found := -1
		for i := plan.Index; i < len(msgs); i++ {
			if msgs[i].Type == "DATA" {
				found = i
				break
			}
		}
		if found < 0 {
			for i := lo; i < len(msgs); i++ {
				if msgs[i].Type == "DATA" {
					found = i
					break
				}
			}
		}
		if found < 0 {
			c.Inconc("no DATA message")
			return
		}
		plan.Index = found
	}
	plan.Type = msgs[plan.Index].Type

	dst := filepath.Join(c.Dir, "dst")
	os.MkdirAll(dst, 0755)
	cfg := sc.Cfg
	cfg.Timeout = plan.Timeout
	if fault == "dest-full" {
		// the first incoming regular file lands on a full device
		cfg.Overwrite = true
		first := ""
		for _, sp := range sc.Specs {
			if !sp.Dir {
				first = sp.Rel
				break
			}
		}
		os.MkdirAll(filepath.Dir(filepath.Join(dst, first)), 0755)
		os.Symlink("/dev/full", filepath.Join(dst, first))
		if cfg.EffProtocol() >= 4 && cfg.Directory {
			cfg.Overwrite = true
		}
	}
	c.Replay(map[string]interface{}{"scenario": sc.Name, "cfg": cfg, "plan": plan, "yield": yield})

	s := vfNewSession(c, cfg)
	var mu sync.Mutex
	fired := false
	var firedAt time.Time
	victim := ""
	vsize := -1
	for _, sp := range sc.Specs {
		if !sp.Dir && sp.Size >= vsize {
			victim = filepath.Join(src, sp.Rel) // the largest (else the last) regular file
			vsize = sp.Size
		}
	}
	act := func() {
		switch fault {
		case "silent":
			if plan.Dir == "c2s" {
				s.cliW().SetSilent(true)
			} else {
				s.srvW().SetSilent(true)
			}
		case "silent-both":
			s.cliW().SetSilent(true)
			s.srvW().SetSilent(true)
		case "write-fail":
			if plan.Dir == "c2s" {
				s.cliW().SetFail(errVfInjectedWrite)
			} else {
				s.srvW().SetFail(errVfInjectedWrite)
			}
		case "dest-removed":
			os.RemoveAll(dst)
		case "src-truncated":
			os.Truncate(victim, 10)
		case "src-grown":
			f, err := os.OpenFile(victim, os.O_APPEND|os.O_WRONLY, 0644)
			if err == nil {
				f.Write(make([]byte, 70000))
				f.Close()
			}
		case "wrong-type":
			// the peer receives a well-formed line of a type it does not expect at this point
			w := s.cliW()
			if plan.Dir == "s2c" {
				w = s.srvW()
			}
			w.deliver([]byte("#HUH:1\n"), vfNextSeq(), false)
		}
	}
	gate := func(ev vfGateEvent) {
		if ev.Index != plan.Index || ev.Before {
			return
		}
		mu.Lock()
		if fired {
			mu.Unlock()
			return
		}
		fired = true
		firedAt = time.Now()
		mu.Unlock()
		if fault != "dest-full" && fault != "src-missing" && fault != "src-shrunk-before-read" {
			act()
		}
	}
	if plan.Dir == "c2s" {
		s.cliW().SetGate(gate)
	} else {
		s.srvW().SetGate(gate)
	}
	if fault == "src-missing" {
		s.doctor = func(files []*sourceFile) []*sourceFile {
			os.Remove(victim) // dangling after the scan
			return files
		}
	}
	if fault == "src-shrunk-before-read" {
		s.doctor = func(files []*sourceFile) []*sourceFile {
			os.Truncate(victim, int64(vsize/3)) // shorter than scanned, changed before it is opened
			return files
		}
	}
	srcOrig := vfSnapshot(src) // the sources as they were when the transfer was requested
	s.Start(paths, dst)
	bound := time.Duration(plan.Timeout)*time.Second + 9*time.Second
	okS := s.WaitServer(60 * time.Second)
	okC := s.WaitClient(60 * time.Second)
	mu.Lock()
	didFire, at := fired, firedAt
	mu.Unlock()
	if fault == "dest-full" || fault == "src-missing" || fault == "src-shrunk-before-read" {
		didFire = true
	}
	if !okS || !okC {
		c.Slow("c11-hang:"+fault, "%s: fault %+v: server returned=%v client returned=%v within 60 s (configured timeout %d s)", sc.Name, plan, okS, okC, plan.Timeout)
		s.Close()
		return
	}
	if !didFire {
		s.Close()
		c.Obs("fault_point_not_reached", 1)
		return
	}
	s.mu.Lock()
	srvRet, cliRet := s.srvRet, s.cliRet
	s.mu.Unlock()
	if !at.IsZero() {
		worst := srvRet.Sub(at)
		if cliRet.Sub(at) > worst {
			worst = cliRet.Sub(at)
		}
		if worst > bound {
			c.Slow("c11-late:"+fault, "%s: fault %+v: %v between the fault and the last side returning (bound %v)", sc.Name, plan, worst, bound)
			s.Close()
			return
		}
		c.Obs("fault_to_return_ms_total", worst.Milliseconds())
	}
	so, co := s.ServerOutcome(), s.ClientOutcome()
	dstTree := vfSnapshot(dst)
	// outcome: error unless that side's part had been completed and verified
	for _, side := range []struct {
		name string
		o    vfOutcome
	}{{"server", so}, {"client", co}} {
		if side.o.Kind != "success" {
			continue
		}
		names := vfReportedNames(sc.Cfg, so, co)
		if len(names) == 0 {
			names = sc.Tops
		}
		// a source changed after it had been read completely is delivered with its original content
		ok := len(names) == len(sc.Tops) && fault != "src-missing"
		for i := 0; ok && i < len(sc.Tops); i++ {
			ok = vfTreeSubEqual(srcOrig, sc.Tops[i], dstTree, names[i]) == ""
		}
		if fault == "dest-removed" {
			// files that were already open keep accepting writes after the directory was unlinked: the
			// software cannot notice; recorded, not judged
			c.Obs("dest_removed_unnoticed", 1)
			ok = true
		}
		if !ok {
			c.Viol("c11-success-after-fault:"+fault+":"+side.name, "%s: fault %+v: %s reports success although the transfer was not completed and verified (other side: %q)", sc.Name, plan, side.name, vfClip(so.Text+" | "+co.Text))
			s.Close()
			return
		}
		c.Obs("faults_after_completion", 1)
	}
	// a side that can still talk tells its peer why: local faults must show up in the peer's error text
	cause := map[string]string{"dest-full": "no space left", "dest-removed": "", "src-truncated": "EOF but", "src-shrunk-before-read": "EOF but", "src-missing": "no such file", "wrong-type": "HUH"}[fault]
	if cause != "" {
		origin, peer := so, co
		originName := "server"
		if (fault == "dest-full") == (sc.Cfg.Dir == "down") { // receiver is the client on downloads
			origin, peer = co, so
			originName = "client"
		}
		if fault == "wrong-type" {
			// the side that received the stray line is the origin
			origin, peer, originName = so, co, "server"
			if plan.Dir == "s2c" {
				origin, peer, originName = co, so, "client"
			}
		}
		if origin.Kind == "error" && peer.Kind == "error" {
			lo, lp := strings.ToLower(origin.Text), strings.ToLower(peer.Text)
			if strings.Contains(lo, strings.ToLower(cause)) && !strings.Contains(lp, strings.ToLower(cause)) {
				if vfIsTimeoutText(peer.Text) {
					c.Slow("c11-peer-not-told:"+fault, "%s: fault %+v: %s failed with %q but the peer only saw %q", sc.Name, plan, originName, vfClip(origin.Text), vfClip(peer.Text))
				} else {
					c.Viol("c11-peer-not-told:"+fault, "%s: fault %+v: %s failed with %q but the peer reports %q", sc.Name, plan, originName, vfClip(origin.Text), vfClip(peer.Text))
				}
				s.Close()
				return
			}
			c.Obs("peer_told_the_cause", 1)
		}
	}
	// M-leak: before the connection is closed only the connection pumps may be left
	leakedBefore := vfWaitNoLeak(c.ID, 2500*time.Millisecond)
	s.Close()
	leakedAfter := vfWaitNoLeak(c.ID, 1500*time.Millisecond)
	if len(leakedBefore) > 0 || len(leakedAfter) > 0 {
		l := vfUniq(append(leakedBefore, leakedAfter...))
		c.Viol("c11-leak:"+strings.Join(l, ","), "%s: fault %+v (server %q, client %q): goroutines of the failed transfer are still running: %v", sc.Name, plan, vfClip(so.Text), vfClip(co.Text), l)
		return
	}
	c.Obs("faults_effective", 1)
	c.SetAdd("fault_points", fault+"@"+plan.Dir+":"+plan.Type)
	c.Nontrivial(fmt.Sprintf("%s %s %s#%d t%d y=%s", sc.Name, fault, plan.Dir, plan.Index, plan.Timeout, yield))
	if k < 2 {
		c.Sample(map[string]interface{}{"scenario": sc.Name, "plan": plan, "server": vfClip(so.Text), "client": vfClip(co.Text)})
	}
}
