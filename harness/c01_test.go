//go:build verif

package trzsz

import (
	"fmt"
	"os"
	"path/filepath"
	"runtime/debug"
	"sort"
	"strings"
	"sync"
	"testing"
	"time"
)

// vfDrawCfg draws a configuration point; win selects the '!\n' framing family.
func vfDrawCfg(r *vfRand, win bool) vfCfg {
	cfg := vfCfg{Timeout: 60}
	cfg.Dir = r.PickStr("up", "down")
	cfg.Binary = r.Intn(2) == 0
	cfg.Escape = cfg.Binary && r.Intn(2) == 0
	cfg.Directory = r.Intn(3) != 0
	cfg.Overwrite = r.Intn(3) == 0
	cfg.Quiet = r.Intn(3) == 0
	cfg.Compress = r.Intn(3)
	cfg.Protocol = r.PickInt(0, 0, 0, 2, 3, 1, 4)
	cfg.Bufsize = int64(r.PickInt(1024, 4096, 65536, 1<<20, 10<<20))
	cfg.Relays = r.PickInt(0, 0, 0, 1, 1, 2)
	cfg.Tunnel = r.Intn(5) == 0
	cfg.Seg = r.PickStr("all", "all", "one", "fixed", "rand", "coalesce")
	cfg.SegK = r.PickInt(2, 7, 13, 100, 1000, 4093, 32768)
	cfg.Direct = r.Intn(6) == 0
	if win {
		cfg.Win = true
		cfg.Binary, cfg.Escape, cfg.Tunnel = false, false, false
		cfg.Relays = 0
	}
	if cfg.Tunnel {
		if cfg.Protocol == 1 || cfg.Protocol == 3 {
			cfg.Protocol = 0 // the ACT travels inside the tunnel; the shim cannot reach it
		}
		cfg.Direct = false
	}
	if cfg.Direct {
		cfg.Relays = 0
	}
	if cfg.Protocol == 1 && !cfg.Directory {
		// protocol 1 is fine with plain names
	}
	if cfg.Seg == "one" {
		// one byte per read is expensive: keep such transfers small via the tree generator
	}
	return cfg
}

func (cfg vfCfg) sig() string {
	return fmt.Sprintf("%s b%v e%v d%v y%v q%v c%d p%d B%d r%d t%v w%v %s/%d D%v", cfg.Dir, cfg.Binary, cfg.Escape, cfg.Directory,
		cfg.Overwrite, cfg.Quiet, cfg.Compress, cfg.Protocol, cfg.Bufsize, cfg.Relays, cfg.Tunnel, cfg.Win, cfg.Seg, cfg.SegK, cfg.Direct)
}

// vfFidelityCase runs one fault-free transfer and applies the C01 oracle. Returns the session
// (already closed) so that callers can add property-specific observations.
func vfFidelityCase(c *vfCtx, cfg vfCfg, tops []string, specs []vfFileSpec, prep func(src, dst string), after func(s *vfSession), setup ...func(s *vfSession)) {
	src := filepath.Join(c.Dir, "src")
	dst := filepath.Join(c.Dir, "dst")
	os.MkdirAll(src, 0755)
	os.MkdirAll(dst, 0755)
	if err := vfWriteTree(src, specs, vfNewRand(c.ID, "content")); err != nil {
		c.Inconc("cannot write source tree: %v", err)
		return
	}
	if prep != nil {
		prep(src, dst)
	}
	var paths []string
	for _, t := range tops {
		paths = append(paths, filepath.Join(src, t))
	}
	srcTree := vfSnapshot(src)
	dstBefore := vfSnapshot(dst)
	c.Replay(map[string]interface{}{"cfg": cfg, "tops": tops, "specs": specs})

	s := vfNewSession(c, cfg)
	for _, f := range setup {
		f(s)
	}
	t0 := time.Now()
	s.Start(paths, dst)
	bound := 150 * time.Second
	okS := s.WaitServer(bound)
	okC := s.WaitClient(bound)
	if !okS || !okC {
		c.Slow("c01-not-finished", "fault-free transfer did not finish within %v (server done=%v client done=%v) cfg=%s", bound, okS, okC, cfg)
		s.Close()
		return
	}
	c.Obs("transfers", 1)
	c.Obs("transfer_ms", time.Since(t0).Milliseconds())
	so, co := s.ServerOutcome(), s.ClientOutcome()
	if !cfg.Direct && cfg.Dir == "up" && s.uploadResult != nil {
		select {
		case err := <-s.uploadResult:
			if err != nil && so.Kind == "success" {
				c.Viol("c01-upload-result-error", "OneTimeUpload result is %v although the server reports success; cfg=%s", err, cfg)
			}
		case <-time.After(3 * time.Second):
			c.Viol("c01-upload-result-missing", "OneTimeUpload result channel delivered nothing; cfg=%s", cfg)
		}
	}
	if so.Kind != "success" || co.Kind != "success" {
		if vfIsTimeoutText(so.Text) || vfIsTimeoutText(co.Text) {
			c.Slow("c01-fault-free-timeout", "fault-free transfer ended in a timeout: server=%s/%q client=%s/%q cfg=%s", so.Kind, vfClip(so.Text), co.Kind, vfClip(co.Text), cfg)
		} else {
			c.Viol("c01-fault-free-failed:"+vfErrClass(so.Text+"|"+co.Text), "fault-free transfer failed: server=%s/%q client=%s/%q cfg=%s", so.Kind, vfClip(so.Text), co.Kind, vfClip(co.Text), cfg)
		}
		s.Close()
		return
	}
	// names told to the user: server message for uploads, client EXIT message for downloads
	names := co.Names
	if cfg.Dir == "up" {
		if len(so.Names) == 0 && so.Text == "(message not captured)" {
			c.Inconc("server message not captured")
			s.Close()
			return
		}
		// the client shows the remote names too: both lists must agree
		if strings.Join(so.Names, "\x00") != strings.Join(co.Names, "\x00") {
			c.Viol("c01-names-disagree", "server printed names %q but client reported %q", so.Names, co.Names)
		}
		names = so.Names
	}
	dstTree := vfSnapshot(dst)
	vfCheckFidelity(c, cfg, srcTree, tops, dstBefore, dstTree, names)
	if after != nil {
		after(s)
	}
	s.Close()
	// goroutines still inside transfer code after a *successful* transfer are recorded as an
	// observation only: C01 does not speak about them (C11 does, for failed transfers)
	if leaked := vfWaitNoLeak(c.ID, 500*time.Millisecond); len(leaked) > 0 {
		c.Obs("cases_with_goroutines_left_after_success", 1)
		for _, l := range vfUniq(leaked) {
			c.SetAdd("goroutines_left_after_success", l)
		}
	}
	var total int64
	for _, sp := range specs {
		total += int64(sp.Size)
	}
	c.Obs("bytes_compared", total)
	c.Obs("files_compared", int64(len(specs)))
	c.Nontrivial(cfg.sig() + fmt.Sprintf(" tops=%d entries=%d", len(tops), len(specs)))
	c.Sample(map[string]interface{}{"cfg": cfg.sig(), "tops": tops, "entries": len(specs), "bytes": total, "reported": names})
}

// vfSameBaseCase: two selected paths with the same base name.  Without overwrite both must be stored (under
// distinct reported names); with overwrite the transfer is refused ("Duplicate name") before anything is
// written, or - if it is carried out - still stores both under distinct reported names.
func vfSameBaseCase(c *vfCtx, cfg vfCfg) {
	src := filepath.Join(c.Dir, "src")
	dst := filepath.Join(c.Dir, "dst")
	os.MkdirAll(dst, 0755)
	specs := []vfFileSpec{{Rel: "a", Dir: true}, {Rel: "b", Dir: true}, {Rel: "a/report.txt", Size: 3000, Content: "text"}, {Rel: "b/report.txt", Size: 5000, Content: "rand"}, {Rel: "other.bin", Size: 700, Content: "rand"}}
	if err := vfWriteTree(src, specs, vfNewRand(c.ID, "content")); err != nil {
		c.Inconc("cannot write source tree: %v", err)
		return
	}
	tops := []string{"a/report.txt", "other.bin", "b/report.txt"}
	var paths []string
	for _, t := range tops {
		paths = append(paths, filepath.Join(src, t))
	}
	srcTree := vfSnapshot(src)
	c.Replay(map[string]interface{}{"cfg": cfg, "tops": tops})
	s, so, co, fin := vfRunTransfer(c, cfg, paths, dst, 120*time.Second)
	if !fin {
		return
	}
	defer s.Close()
	dstTree := vfSnapshot(dst)
	if so.Kind != "success" && co.Kind != "success" {
		if cfg.Overwrite && (strings.Contains(so.Text, "Duplicate name") || strings.Contains(co.Text, "Duplicate name")) {
			if len(dstTree) != 0 {
				c.Viol("c01-samebase-refused-but-wrote", "the transfer was refused (duplicate name with overwrite) yet the destination holds %v", dstTree.keys())
				return
			}
			c.Obs("samebase_refused_with_overwrite", 1)
			c.Nontrivial("samebase refused " + cfg.sig())
			return
		}
		if vfIsTimeoutText(so.Text) || vfIsTimeoutText(co.Text) {
			c.Slow("c01-fault-free-timeout", "same base name twice: server=%s/%q client=%s/%q cfg=%s", so.Kind, vfClip(so.Text), co.Kind, vfClip(co.Text), cfg)
			return
		}
		c.Viol("c01-fault-free-failed:samebase:"+vfErrClass(so.Text+"|"+co.Text), "two paths with the same base name: server=%s/%q client=%s/%q cfg=%s", so.Kind, vfClip(so.Text), co.Kind, vfClip(co.Text), cfg)
		return
	}
	names := vfReportedNames(cfg, so, co)
	vfCheckFidelity(c, cfg, srcTree, tops, vfTree{}, dstTree, names)
	if c.Failed() {
		return
	}
	c.Obs("samebase_stored_under_distinct_names", 1)
	c.Nontrivial("samebase stored " + cfg.sig())
}

// vfCheckFidelity: i-th source path maps to the i-th distinct reported name; content equal; nothing else changed.
func vfCheckFidelity(c *vfCtx, cfg vfCfg, srcTree vfTree, tops []string, dstBefore, dstTree vfTree, names []string) {
	if len(names) != len(tops) {
		c.Viol("c01-name-count", "reported %d names %q for %d source paths %q", len(names), names, len(tops), tops)
		return
	}
	seen := map[string]bool{}
	for i, top := range tops {
		n := names[i]
		if seen[n] {
			c.Viol("c01-name-dup", "name %q reported twice: %q", n, names)
			return
		}
		seen[n] = true
		if d := vfTreeSubEqual(srcTree, top, dstTree, n); d != "" {
			c.Viol("c01-tree-differs", "source path %q reported as %q: %s", top, n, d)
			return
		}
	}
	// nothing else appeared or changed under the destination
	for _, k := range dstTree.keys() {
		topName := strings.SplitN(k, string(os.PathSeparator), 2)[0]
		if seen[topName] {
			continue
		}
		if _, ok := dstBefore[k]; !ok {
			c.Viol("c01-extra-entry", "destination has an entry %q that belongs to no reported name %q", k, names)
			return
		}
	}
	if d := vfTreeUnchanged(dstBefore, dstTree, func(k string) bool {
		return seen[strings.SplitN(k, string(os.PathSeparator), 2)[0]]
	}); d != "" {
		c.Viol("c01-other-changed", "%s", d)
	}
}

// vfRunTransfer runs one transfer to completion on both sides and classifies both outcomes.
// finished=false means a side did not return within the bound (already recorded as slow).
func vfRunTransfer(c *vfCtx, cfg vfCfg, paths []string, dst string, bound time.Duration, opts ...func(*vfSession)) (s *vfSession, so, co vfOutcome, finished bool) {
	s = vfNewSession(c, cfg)
	for _, o := range opts {
		o(s)
	}
	t0 := time.Now()
	s.Start(paths, dst)
	okS := s.WaitServer(bound)
	okC := s.WaitClient(bound)
	if !okS || !okC {
		c.Slow("not-finished", "transfer did not finish within %v (server done=%v client done=%v) cfg=%s", bound, okS, okC, cfg)
		s.Close()
		return s, so, co, false
	}
	c.Obs("transfers", 1)
	c.Obs("transfer_ms", time.Since(t0).Milliseconds())
	so, co = s.ServerOutcome(), s.ClientOutcome()
	return s, so, co, true
}

// vfReportedNames returns the names told to the user (server message for uploads, client EXIT for downloads).
func vfReportedNames(cfg vfCfg, so, co vfOutcome) []string {
	if cfg.Dir == "up" && len(so.Names) > 0 {
		return so.Names
	}
	return co.Names
}

func vfIsTimeoutText(s string) bool {
	return strings.Contains(s, "Receive data timeout") || strings.Contains(s, "timeout")
}

func vfClip(s string) string {
	if i := strings.Index(s, "\ngoroutine "); i > 0 {
		s = s[:i]
	}
	if len(s) > 400 {
		s = s[:400] + "..."
	}
	return s
}

// vfErrClass normalises an error text into a class (digits and paths removed).
func vfErrClass(s string) string {
	s = vfClip(s)
	if i := strings.IndexByte(s, '\n'); i > 0 {
		s = s[:i]
	}
	var b strings.Builder
	prevDigit := false
	for _, r := range s {
		if r >= '0' && r <= '9' {
			if !prevDigit {
				b.WriteByte('N')
			}
			prevDigit = true
			continue
		}
		prevDigit = false
		b.WriteRune(r)
	}
	s = b.String()
	for {
		i := strings.Index(s, "/verif/run/")
		if i < 0 {
			break
		}
		j := i
		for j < len(s) && s[j] != ' ' && s[j] != ']' && s[j] != ':' && s[j] != '|' {
			j++
		}
		s = s[:i] + "PATH" + s[j:]
	}
	if len(s) > 100 {
		s = s[:100]
	}
	return s
}

func vfUniq(a []string) []string {
	m := map[string]bool{}
	var out []string
	for _, s := range a {
		if !m[s] {
			m[s] = true
			out = append(out, s)
		}
	}
	sort.Strings(out)
	return out
}

func TestVF_C01(t *testing.T) {
	if vfWinEnv {
		SetAffectedByWindows(true)
	}
	n := vfPick(170, 2400)
	if vfWinEnv {
		n = vfPick(24, 300)
	}
	var cases []vfCase
	for i := 0; i < n; i++ {
		i := i
		id := fmt.Sprintf("fid-%d", i)
		if vfWinEnv {
			id = fmt.Sprintf("fidwin-%d", i)
		}
		cases = append(cases, vfCase{ID: id, Run: func(c *vfCtx) {
			cfg := vfDrawCfg(c.R, vfWinEnv)
			maxSize := 1 << 20
			maxFiles := 8
			if vfThorough() && c.R.Intn(40) == 0 {
				maxSize = 24 << 20
			}
			if cfg.Seg == "one" || (cfg.Seg == "fixed" || cfg.Seg == "rand") && cfg.SegK < 100 || cfg.Win {
				maxSize = 40 * 1024
				maxFiles = 4
			}
			if cfg.Protocol == 1 {
				maxSize = vfMin(maxSize, 300*1024)
			}
			tops, specs := vfGenTree(c.R, cfg.Directory, maxSize, maxFiles)
			vfFidelityCase(c, cfg, tops, specs, nil, nil)
		}})
	}
	// a slow link: one data acknowledgement takes 2.5 s (the sender then lowers its buffer size and re-splits the
	// chunks it had already prepared); nothing is lost, so the transfer must still complete with identical files
	for k := 0; k < vfPick(4, 16); k++ {
		k := k
		id := fmt.Sprintf("slowack-%d", k)
		if vfWinEnv {
			id = fmt.Sprintf("slowackwin-%d", k)
		}
		cases = append(cases, vfCase{ID: id, Run: func(c *vfCtx) {
			cfg := vfCfg{Dir: []string{"up", "down"}[k%2], Binary: k%4 >= 2, Timeout: 30, Quiet: true, Direct: k%3 == 0, Win: vfWinEnv, Compress: 2, Bufsize: []int64{10240, 20000}[k/2%2]} // many chunks: some are still queued when the buffer size drops
			specs := []vfFileSpec{{Rel: "slow.bin", Size: 300000 + k*1000, Content: "rand"}, {Rel: "after.txt", Size: 2000, Content: "text"}}
			var once sync.Once
			nth := 4 + k%3
			var lastT *trzszTransfer
			vfFidelityCase(c, cfg, []string{"slow.bin", "after.txt"}, specs, nil, func(s *vfSession) {
				lastT = s.st // the sender of a download
				if cfg.Dir == "up" {
					if cfg.Direct {
						lastT = s.ct
					} else {
						lastT = nil
					}
				}
			}, func(s *vfSession) {
				w := s.srvW() // acknowledgements travel against the data
				if cfg.Dir == "down" {
					w = s.cliW()
				}
				seen := 0
				w.SetGate(func(ev vfGateEvent) {
					if ev.Before || ev.Type != "SUCC" {
						return
					}
					seen++
					if seen == nth+3 { // NUM/NAME/SIZE echoes come first
						once.Do(func() {
							c.Obs("slow_ack_delays_applied", 1)
							time.Sleep(2500 * time.Millisecond)
						})
					}
				})
			})
			c.Obs("slow_ack_cases", 1)
			if t := lastT; t != nil {
				c.Obs("slow_ack_final_buffer_size", t.bufferSize.Load())
			}
		}})
	}
	if !vfWinEnv {
		// the same base name twice among the selected paths
		k := 0
		for _, dir := range []string{"up", "down"} {
			for _, y := range []bool{false, true} {
				for _, dmode := range []bool{false, true} {
					for _, direct := range []bool{false, true} {
						if !vfThorough() && direct && dmode {
							continue
						}
						dir, y, dmode, direct, kk := dir, y, dmode, direct, k
						k++
						cases = append(cases, vfCase{ID: fmt.Sprintf("samebase-%s-y%v-d%v-direct%v", dir, y, dmode, direct), Run: func(c *vfCtx) {
							vfSameBaseCase(c, vfCfg{Dir: dir, Overwrite: y, Directory: dmode, Direct: direct, Timeout: 60, Quiet: kk%2 == 0, Protocol: []int{0, 0, 2, 3}[kk%4]})
						}})
					}
				}
			}
		}
	}
	if os.Getenv("VF_PROCS") != "" {
		vfRunCases(t, "C01", vfProcTransferCases(), 2, 400*time.Second)
		return
	}
	if os.Getenv("VF_FDCASES") != "" {
		// more files in one transfer than the process may hold open at once: descriptors in use must not
		// grow with the number of files (one case at a time per child, GC off so finalizers cannot help)
		cases = nil
		for i, nfiles := range []int{60, 300} {
			for _, dir := range []string{"down", "up"} {
				for _, mode := range []string{"files", "dir-y", "archive"} {
					i, nfiles, dir, mode := i, nfiles, dir, mode
					cases = append(cases, vfCase{ID: fmt.Sprintf("fd-%s-%s-%d", dir, mode, nfiles), Run: func(c *vfCtx) {
						vfFdCase(c, dir, mode, nfiles, i)
					}})
				}
			}
		}
		vfRunCases(t, "C01", cases, 1, 400*time.Second)
		return
	}
	vfRunCases(t, "C01", cases, 3, 400*time.Second)
}

func vfFdCase(c *vfCtx, dir, mode string, nfiles int, i int) {
	old := debug.SetGCPercent(-1)
	defer debug.SetGCPercent(old)
	cfg := vfCfg{Dir: dir, Timeout: 60, Quiet: true, Direct: i%2 == 0}
	var specs []vfFileSpec
	var tops []string
	if mode == "files" {
		for k := 0; k < nfiles; k++ {
			n := fmt.Sprintf("f%04d.bin", k)
			specs = append(specs, vfFileSpec{Rel: n, Size: 10 + k%50, Content: "rand"})
			tops = append(tops, n)
		}
	} else {
		cfg.Directory = true
		cfg.Overwrite = mode == "dir-y"
		specs = append(specs, vfFileSpec{Rel: "many", Dir: true})
		for k := 0; k < nfiles; k++ {
			specs = append(specs, vfFileSpec{Rel: fmt.Sprintf("many/s%d/f%04d.bin", k%5, k), Size: 10 + k%50, Content: "rand"})
		}
		tops = []string{"many"}
	}
	base := vfCountFDs()
	peak := 0
	vfFidelityCase(c, cfg, tops, specs, nil, func(s *vfSession) {}, func(s *vfSession) {
		sample := func(ev vfGateEvent) {
			if ev.Type == "NAME" || ev.Type == "MD5" || ev.Type == "DATA" {
				if n := vfCountFDs() - base; n > peak {
					peak = n
				}
			}
		}
		s.cliW().SetGate(sample)
		s.srvW().SetGate(sample)
	})
	c.Obs(fmt.Sprintf("fd_peak_over_baseline_%d_files", nfiles), int64(peak))
	if c.Failed() {
		return
	}
	if peak > 40 {
		c.Viol("c01-descriptors-grow-with-file-count", "%s %s: %d descriptors over the baseline were in use during a transfer of %d files (GC disabled): open files grow with the number of files in one transfer", dir, mode, peak, nfiles)
	}
}
