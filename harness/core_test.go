//go:build verif

package trzsz

// Harness core: environment, PRNG, case runner with journal/result files,
// tree snapshots (M-tree), goroutine-leak monitor (M-leak), stdout capture (M-say).

import (
	"bytes"
	"context"
	"crypto/sha256"
	"encoding/hex"
	"encoding/json"
	"fmt"
	"io"
	"os"
	"path/filepath"
	"runtime"
	"runtime/pprof"
	"sort"
	"strconv"
	"strings"
	"sync"
	"sync/atomic"
	"testing"
	"time"
)

// ---------------------------------------------------------------- environment

var (
	vfSeed    = vfEnvInt("VERIF_SEED", 1)
	vfTier    = vfEnvStr("VERIF_TIER", "quick")
	vfOutDir  = vfEnvStr("VF_OUT", "")
	vfShard   = vfEnvInt("VF_SHARD", 0)
	vfNShards = vfEnvInt("VF_NSHARDS", 1)
	vfOnly    = vfEnvStr("VF_ONLY", "") // comma separated case ids (replay / confirm-alone)
	vfSkipIDs = vfEnvStr("VF_SKIP", "") // file with case ids to skip (already journalled)
	vfWinEnv  = vfEnvInt("VF_WIN", 0) == 1
	vfScale   = vfEnvInt("VF_SCALE", 1)
)

func vfEnvStr(k, d string) string {
	if v := os.Getenv(k); v != "" {
		return v
	}
	return d
}

func vfEnvInt(k string, d int) int {
	if v := os.Getenv(k); v != "" {
		if n, err := strconv.Atoi(v); err == nil {
			return n
		}
	}
	return d
}

func vfThorough() bool { return vfTier == "thorough" }

// vfPick returns q in the quick tier and t in the thorough tier.
func vfPick(q, t int) int {
	if vfThorough() {
		return t
	}
	return q
}

// ---------------------------------------------------------------- PRNG

type vfRand struct{ s uint64 }

func vfNewRand(parts ...interface{}) *vfRand {
	h := sha256.New()
	fmt.Fprint(h, vfSeed)
	for _, p := range parts {
		fmt.Fprint(h, "|", p)
	}
	sum := h.Sum(nil)
	var s uint64
	for i := 0; i < 8; i++ {
		s = s<<8 | uint64(sum[i])
	}
	return &vfRand{s}
}

func (r *vfRand) U64() uint64 {
	r.s += 0x9e3779b97f4a7c15
	z := r.s
	z = (z ^ (z >> 30)) * 0xbf58476d1ce4e5b9
	z = (z ^ (z >> 27)) * 0x94d049bb133111eb
	return z ^ (z >> 31)
}

func (r *vfRand) Intn(n int) int {
	if n <= 0 {
		return 0
	}
	return int(r.U64() % uint64(n))
}

func (r *vfRand) Bool() bool { return r.U64()&1 == 1 }

func (r *vfRand) Bytes(n int) []byte {
	b := make([]byte, n)
	i := 0
	for ; i+8 <= n; i += 8 {
		v := r.U64()
		b[i], b[i+1], b[i+2], b[i+3] = byte(v), byte(v>>8), byte(v>>16), byte(v>>24)
		b[i+4], b[i+5], b[i+6], b[i+7] = byte(v>>32), byte(v>>40), byte(v>>48), byte(v>>56)
	}
	if i < n {
		v := r.U64()
		for ; i < n; i++ {
			b[i] = byte(v)
			v >>= 8
		}
	}
	return b
}

func (r *vfRand) PickStr(a ...string) string { return a[r.Intn(len(a))] }
func (r *vfRand) PickInt(a ...int) int       { return a[r.Intn(len(a))] }

// ---------------------------------------------------------------- results

type vfRec struct {
	ID     string              `json:"id"`
	St     string              `json:"st"` // ok | viol | inconc | slow
	Sig    string              `json:"sig,omitempty"`
	NT     bool                `json:"nt,omitempty"`
	VSig   string              `json:"vsig,omitempty"`
	Msg    string              `json:"msg,omitempty"`
	Obs    map[string]int64    `json:"obs,omitempty"`
	Sample interface{}         `json:"sample,omitempty"`
	Replay interface{}         `json:"replay,omitempty"`
	Sets   map[string][]string `json:"sets,omitempty"`
}

type vfCtx struct {
	ID     string
	Prop   string
	Dir    string // scratch directory of the case
	R      *vfRand
	mu     sync.Mutex
	rec    vfRec
	T      *testing.T
	Labels context.Context
}

func (c *vfCtx) Viol(vsig string, format string, a ...interface{}) {
	c.mu.Lock()
	defer c.mu.Unlock()
	if c.rec.St == "viol" {
		return // keep the first
	}
	c.rec.St = "viol"
	c.rec.VSig = vsig
	c.rec.Msg = fmt.Sprintf(format, a...)
	if len(c.rec.Msg) > 4000 {
		c.rec.Msg = c.rec.Msg[:4000] + "..."
	}
}

func (c *vfCtx) Inconc(format string, a ...interface{}) {
	c.mu.Lock()
	defer c.mu.Unlock()
	if c.rec.St == "viol" || c.rec.St == "inconc" {
		return
	}
	c.rec.St = "inconc"
	c.rec.Msg = fmt.Sprintf(format, a...)
}

// Slow marks a bounded-time miss; the driver re-runs such cases alone.
func (c *vfCtx) Slow(vsig string, format string, a ...interface{}) {
	c.mu.Lock()
	defer c.mu.Unlock()
	if c.rec.St == "viol" || c.rec.St == "slow" {
		return
	}
	c.rec.St = "slow"
	c.rec.VSig = vsig
	c.rec.Msg = fmt.Sprintf(format, a...)
}

func (c *vfCtx) Failed() bool {
	c.mu.Lock()
	defer c.mu.Unlock()
	return c.rec.St == "viol"
}

func (c *vfCtx) Nontrivial(sig string) {
	c.mu.Lock()
	defer c.mu.Unlock()
	c.rec.NT = true
	c.rec.Sig = sig
}

func (c *vfCtx) Obs(key string, n int64) {
	c.mu.Lock()
	defer c.mu.Unlock()
	if c.rec.Obs == nil {
		c.rec.Obs = map[string]int64{}
	}
	c.rec.Obs[key] += n
}

// SetAdd records a member of a named set; the driver reports distinct counts.
func (c *vfCtx) SetAdd(set string, member string) {
	c.mu.Lock()
	defer c.mu.Unlock()
	if c.rec.Sets == nil {
		c.rec.Sets = map[string][]string{}
	}
	for _, m := range c.rec.Sets[set] {
		if m == member {
			return
		}
	}
	if len(c.rec.Sets[set]) < 4096 {
		c.rec.Sets[set] = append(c.rec.Sets[set], member)
	}
}

func (c *vfCtx) Sample(v interface{}) {
	c.mu.Lock()
	defer c.mu.Unlock()
	c.rec.Sample = v
}

func (c *vfCtx) Replay(v interface{}) {
	c.mu.Lock()
	defer c.mu.Unlock()
	c.rec.Replay = v
}

type vfCase struct {
	ID  string
	Run func(c *vfCtx)
}

var vfResultMu sync.Mutex

func vfAppendLine(name string, line []byte) {
	if vfOutDir == "" {
		return
	}
	f, err := os.OpenFile(filepath.Join(vfOutDir, name), os.O_CREATE|os.O_WRONLY|os.O_APPEND, 0644)
	if err != nil {
		return
	}
	f.Write(append(line, '\n'))
	f.Close()
}

func vfLoadSkip() map[string]bool {
	m := map[string]bool{}
	if vfSkipIDs == "" {
		return m
	}
	b, err := os.ReadFile(vfSkipIDs)
	if err != nil {
		return m
	}
	for _, l := range strings.Split(string(b), "\n") {
		if l = strings.TrimSpace(l); l != "" {
			m[l] = true
		}
	}
	return m
}

// vfRunCases runs the shard's part of the case list, at most `parallel` at a time,
// each under a watchdog; every case is journalled before it starts.
func vfRunCases(t *testing.T, prop string, cases []vfCase, parallel int, watchdog time.Duration) {
	vfInitStdoutCapture()
	skip := vfLoadSkip()
	only := map[string]bool{}
	for _, s := range strings.Split(vfOnly, ",") {
		if s != "" {
			only[s] = true
		}
	}
	var mine []vfCase
	for i, cs := range cases {
		if len(only) > 0 {
			if only[cs.ID] {
				mine = append(mine, cs)
			}
			continue
		}
		if i%vfNShards != vfShard || skip[cs.ID] {
			continue
		}
		mine = append(mine, cs)
	}
	vfAppendLine("plan.txt", []byte(fmt.Sprintf("total=%d mine=%d", len(cases), len(mine))))
	if parallel < 1 {
		parallel = 1
	}
	sem := make(chan struct{}, parallel)
	var wg sync.WaitGroup
	for _, cs := range mine {
		cs := cs
		sem <- struct{}{}
		wg.Add(1)
		go func() {
			defer wg.Done()
			defer func() { <-sem }()
			vfRunOne(t, prop, cs, watchdog)
		}()
	}
	wg.Wait()
	vfAppendLine("plan.txt", []byte("done"))
}

func vfRunOne(t *testing.T, prop string, cs vfCase, watchdog time.Duration) {
	c := &vfCtx{ID: cs.ID, Prop: prop, R: vfNewRand(prop, cs.ID), T: t}
	c.rec.ID = cs.ID
	c.rec.St = "ok"
	if vfOutDir != "" {
		c.Dir = filepath.Join(vfOutDir, "cases", vfSafeName(cs.ID))
	} else {
		c.Dir = filepath.Join(os.TempDir(), "vf-cases", vfSafeName(cs.ID))
	}
	os.RemoveAll(c.Dir)
	os.MkdirAll(c.Dir, 0755)
	vfResultMu.Lock()
	vfAppendLine("journal.txt", []byte("S "+cs.ID))
	vfResultMu.Unlock()
	done := make(chan struct{})
	go func() {
		defer close(done)
		defer func() {
			if r := recover(); r != nil {
				buf := make([]byte, 1<<16)
				n := runtime.Stack(buf, false)
				c.Viol("panic:"+vfPanicSig(string(buf[:n])), "panic in case goroutine: %v\n%s", r, buf[:n])
			}
		}()
		pprof.Do(context.Background(), pprof.Labels("vfcase", cs.ID), func(ctx context.Context) {
			c.Labels = ctx
			cs.Run(c)
		})
	}()
	select {
	case <-done:
	case <-time.After(watchdog):
		var b bytes.Buffer
		pprof.Lookup("goroutine").WriteTo(&b, 2)
		if vfOutDir != "" {
			os.WriteFile(filepath.Join(vfOutDir, "watchdog-"+vfSafeName(cs.ID)+".txt"), b.Bytes(), 0644)
		}
		c.mu.Lock()
		if c.rec.St != "viol" {
			c.rec.St = "slow"
			c.rec.VSig = "watchdog"
			c.rec.Msg = fmt.Sprintf("case did not finish within the %v harness watchdog", watchdog)
		}
		c.mu.Unlock()
	}
	c.mu.Lock()
	line, _ := json.Marshal(&c.rec)
	st := c.rec.St
	c.mu.Unlock()
	vfResultMu.Lock()
	vfAppendLine("results.jsonl", line)
	vfAppendLine("journal.txt", []byte("E "+cs.ID))
	vfResultMu.Unlock()
	if st == "ok" {
		os.RemoveAll(c.Dir)
	}
}

func vfSafeName(s string) string {
	var b strings.Builder
	for _, r := range s {
		if r >= 'a' && r <= 'z' || r >= 'A' && r <= 'Z' || r >= '0' && r <= '9' || r == '-' || r == '_' || r == '.' {
			b.WriteRune(r)
		} else {
			b.WriteByte('_')
		}
	}
	s = b.String()
	if len(s) > 120 {
		h := sha256.Sum256([]byte(s))
		s = s[:100] + "-" + hex.EncodeToString(h[:6])
	}
	return s
}

// vfPanicSig extracts the innermost non-harness trzsz frame from a stack text.
func vfPanicSig(stack string) string {
	for _, l := range strings.Split(stack, "\n") {
		l = strings.TrimSpace(l)
		if i := strings.Index(l, "trzsz-go/trzsz."); i >= 0 {
			fn := l[i+len("trzsz-go/trzsz."):]
			if j := strings.IndexByte(fn, '('); j >= 0 && !strings.HasPrefix(fn, "(") {
				fn = fn[:j]
			} else if strings.HasPrefix(fn, "(") {
				if j := strings.Index(fn, ")("); j >= 0 {
					fn = fn[:j+1]
				}
				if k := strings.LastIndex(fn, "("); k > 0 {
					fn = fn[:k]
				}
			}
			if strings.HasPrefix(fn, "vf") || strings.HasPrefix(fn, "TestVF") || strings.Contains(fn, ".vf") {
				continue
			}
			return fn
		}
	}
	return "unknown"
}

// ---------------------------------------------------------------- M-tree

type vfEntry struct {
	Type  string `json:"t"` // f d l o
	Size  int64  `json:"s"`
	Hash  string `json:"h,omitempty"`
	Mode  uint32 `json:"m"`
	Mtime int64  `json:"mt"`
}

type vfTree map[string]vfEntry

func vfHashFile(path string) string {
	f, err := os.Open(path)
	if err != nil {
		return "ERR:" + err.Error()
	}
	defer f.Close()
	h := sha256.New()
	io.Copy(h, f)
	return hex.EncodeToString(h.Sum(nil)[:12])
}

func vfSnapshot(root string) vfTree {
	tree := vfTree{}
	filepath.Walk(root, func(p string, info os.FileInfo, err error) error {
		if err != nil {
			return nil
		}
		rel, _ := filepath.Rel(root, p)
		if rel == "." {
			return nil
		}
		e := vfEntry{Mode: uint32(info.Mode().Perm()), Mtime: info.ModTime().UnixNano()}
		switch {
		case info.Mode()&os.ModeSymlink != 0:
			e.Type = "l"
			e.Hash, _ = os.Readlink(p)
		case info.IsDir():
			e.Type = "d"
		case info.Mode().IsRegular():
			e.Type = "f"
			e.Size = info.Size()
			e.Hash = vfHashFile(p)
		default:
			e.Type = "o"
		}
		tree[rel] = e
		return nil
	})
	return tree
}

func (t vfTree) keys() []string {
	ks := make([]string, 0, len(t))
	for k := range t {
		ks = append(ks, k)
	}
	sort.Strings(ks)
	return ks
}

// vfTreeSubEqual compares the subtree of a rooted at an with the subtree of b rooted at bn
// (type, size, content hash). Returns a description of the first difference or "".
func vfTreeSubEqual(a vfTree, an string, b vfTree, bn string) string {
	sub := func(t vfTree, n string) map[string]vfEntry {
		m := map[string]vfEntry{}
		for k, e := range t {
			if k == n {
				m["."] = e
			} else if strings.HasPrefix(k, n+string(os.PathSeparator)) {
				m[k[len(n)+1:]] = e
			}
		}
		return m
	}
	sa, sb := sub(a, an), sub(b, bn)
	if len(sa) == 0 {
		return fmt.Sprintf("source %q missing", an)
	}
	for k, ea := range sa {
		eb, ok := sb[k]
		if !ok {
			return fmt.Sprintf("missing at destination: %s/%s (type %s size %d)", bn, k, ea.Type, ea.Size)
		}
		if ea.Type != eb.Type {
			return fmt.Sprintf("type differs at %s/%s: src %s dst %s", bn, k, ea.Type, eb.Type)
		}
		if ea.Type == "f" && (ea.Size != eb.Size || ea.Hash != eb.Hash) {
			return fmt.Sprintf("content differs at %s/%s: src size %d hash %s, dst size %d hash %s", bn, k, ea.Size, ea.Hash, eb.Size, eb.Hash)
		}
	}
	for k, eb := range sb {
		if _, ok := sa[k]; !ok {
			return fmt.Sprintf("extra at destination: %s/%s (type %s size %d)", bn, k, eb.Type, eb.Size)
		}
	}
	return ""
}

// vfTreeUnchanged checks that every entry of before is present and identical in after.
func vfTreeUnchanged(before, after vfTree, except func(string) bool) string {
	for _, k := range before.keys() {
		if except != nil && except(k) {
			continue
		}
		eb := before[k]
		ea, ok := after[k]
		if !ok {
			return fmt.Sprintf("pre-existing entry removed: %s", k)
		}
		if ea.Type != eb.Type || ea.Size != eb.Size || ea.Hash != eb.Hash {
			return fmt.Sprintf("pre-existing entry modified: %s (before %s/%d/%s after %s/%d/%s)", k, eb.Type, eb.Size, eb.Hash, ea.Type, ea.Size, ea.Hash)
		}
		if eb.Type == "f" && ea.Mtime != eb.Mtime {
			return fmt.Sprintf("pre-existing file touched (mtime changed): %s", k)
		}
	}
	return ""
}

// ---------------------------------------------------------------- M-leak

type vfGoroutine struct {
	Count  int
	Frames []string
}

// vfCaseGoroutines lists goroutines labelled with the case that are inside package trzsz code.
func vfCaseGoroutines(caseID string) []vfGoroutine {
	var b bytes.Buffer
	pprof.Lookup("goroutine").WriteTo(&b, 1)
	var out []vfGoroutine
	for _, blk := range strings.Split(b.String(), "\n\n") {
		lines := strings.Split(blk, "\n")
		if len(lines) < 2 {
			continue
		}
		lab := ""
		var frames []string
		cnt := 1
		if f := strings.Fields(lines[0]); len(f) > 0 {
			if n, err := strconv.Atoi(f[0]); err == nil {
				cnt = n
			}
		}
		for _, l := range lines[1:] {
			if strings.HasPrefix(l, "# labels:") {
				lab = l
				continue
			}
			if strings.HasPrefix(l, "#\t") {
				f := strings.Fields(l[2:])
				if len(f) >= 2 {
					fn := f[1]
					if i := strings.Index(fn, "+0x"); i >= 0 {
						fn = fn[:i]
					}
					frames = append(frames, fn)
				}
			}
		}
		want, _ := json.Marshal(caseID)
		if !strings.Contains(lab, `"vfcase":`+string(want)) {
			continue
		}
		out = append(out, vfGoroutine{cnt, frames})
	}
	return out
}

var vfLifetimeAllow = []string{
	"trzsz.wrapTransferInput.func1",
	"trzsz.(*TrzszFilter).wrapInput",
	"trzsz.(*TrzszFilter).wrapOutput",
	"trzsz.(*TrzszFilter).OneTimeUpload.func1",
	"trzsz.NewTrzszRelay.func",
	"trzsz.(*TrzszRelay).wrapInput",
	"trzsz.(*TrzszRelay).wrapOutput",
	"trzsz.(*traceLogger).writeTraceLog.func1",
	"trzsz.(*TrzszFilter).uploadDragFiles",
	"trzsz.(*TrzszFilter).addDragFiles.func1",
}

// vfLeakedFrames returns the innermost product frames of goroutines of the case that are
// still inside transfer code (i.e. not harness, not on the lifetime allowlist).
func vfLeakedFrames(caseID string, extraAllow ...string) []string {
	var leaked []string
	for _, g := range vfCaseGoroutines(caseID) {
		inner := ""
		allowed := false
		harnessOnly := true
		for _, fn := range g.Frames {
			i := strings.Index(fn, "trzsz-go/trzsz.")
			if i < 0 {
				continue
			}
			short := "trzsz." + fn[i+len("trzsz-go/trzsz."):]
			if vfIsHarnessFunc(short) {
				continue
			}
			harnessOnly = false
			if inner == "" {
				inner = short
			}
			for _, a := range append(vfLifetimeAllow, extraAllow...) {
				if strings.HasPrefix(short, a) {
					allowed = true
				}
			}
		}
		if harnessOnly || inner == "" {
			continue
		}
		// a lifetime goroutine is allowed only when it is the outermost product frame,
		// i.e. the goroutine *is* the pump, not something started from inside a transfer
		if allowed && vfOutermostAllowed(g.Frames, extraAllow) {
			continue
		}
		leaked = append(leaked, inner)
	}
	sort.Strings(leaked)
	return leaked
}

func vfOutermostAllowed(frames []string, extra []string) bool {
	outer := ""
	for _, fn := range frames {
		i := strings.Index(fn, "trzsz-go/trzsz.")
		if i < 0 {
			continue
		}
		short := "trzsz." + fn[i+len("trzsz-go/trzsz."):]
		if vfIsHarnessFunc(short) {
			continue
		}
		outer = short
	}
	for _, a := range append(vfLifetimeAllow, extra...) {
		if strings.HasPrefix(outer, a) {
			return true
		}
	}
	return false
}

func vfIsHarnessFunc(short string) bool {
	s := strings.TrimPrefix(short, "trzsz.")
	return strings.HasPrefix(s, "vf") || strings.HasPrefix(s, "TestVF") || strings.HasPrefix(s, "(*vf") || strings.HasPrefix(s, "(vf")
}

// vfWaitNoLeak polls until no goroutine of the case is inside transfer code; returns the leaked frames.
func vfWaitNoLeak(caseID string, grace time.Duration, extraAllow ...string) []string {
	deadline := time.Now().Add(grace)
	var leaked []string
	for i := 0; ; i++ {
		leaked = vfLeakedFrames(caseID, extraAllow...)
		if len(leaked) == 0 {
			return nil
		}
		if time.Now().After(deadline) {
			return leaked
		}
		if i < 50 {
			runtime.Gosched()
			time.Sleep(2 * time.Millisecond)
		} else {
			time.Sleep(25 * time.Millisecond)
		}
	}
}

// ---------------------------------------------------------------- stdout capture (server messages)

var (
	vfStdoutOnce sync.Once
	vfStdoutMu   sync.Mutex
	vfStdoutBuf  bytes.Buffer
	vfRealStdout *os.File
	vfStdoutSeq  atomic.Int64
)

func vfInitStdoutCapture() {
	vfStdoutOnce.Do(func() {
		r, w, err := os.Pipe()
		if err != nil {
			return
		}
		vfRealStdout = os.Stdout
		os.Stdout = w
		go func() {
			buf := make([]byte, 64*1024)
			for {
				n, err := r.Read(buf)
				if n > 0 {
					vfStdoutMu.Lock()
					if vfStdoutBuf.Len() > 64<<20 {
						vfStdoutBuf.Reset()
					}
					vfStdoutBuf.Write(buf[:n])
					vfStdoutMu.Unlock()
					vfStdoutSeq.Add(1)
				}
				if err != nil {
					return
				}
			}
		}()
	})
}

// vfStdoutFind returns the captured server message (one write) that contains key.
func vfStdoutMark() int {
	vfStdoutMu.Lock()
	defer vfStdoutMu.Unlock()
	return vfStdoutBuf.Len()
}

func vfStdoutFind(key string, mark int) (string, bool) {
	vfStdoutMu.Lock()
	defer vfStdoutMu.Unlock()
	s := vfStdoutBuf.String()
	if mark > len(s) {
		mark = 0 // the capture buffer was recycled
	}
	if mark > 64 {
		s = s[mark-64:] // keep the reset sequence that precedes a message written right at the mark
	}
	i := strings.LastIndex(s, key)
	if i < 0 {
		return "", false
	}
	// the message starts after the preceding reset sequence and ends at showCursor
	start := strings.LastIndex(s[:i], "\x1b[0J")
	if start < 0 {
		start = 0
	} else {
		start += 4
	}
	// the message is one write and contains no ESC; other cases' writes may follow it directly
	end := strings.IndexByte(s[i:], 0x1b)
	if end < 0 {
		end = len(s)
	} else {
		end += i
	}
	return s[start:end], true
}

// vfParseSaved extracts the names from a "Saved N files ... to PATH\r\n- a\r\n- b" message.
func vfParseSaved(msg string) (n int, dest string, names []string, ok bool) {
	i := strings.Index(msg, "Saved ")
	if i < 0 {
		return 0, "", nil, false
	}
	msg = msg[i:]
	parts := strings.Split(strings.TrimRight(msg, "\r\n"), "\r\n- ")
	head := parts[0]
	f := strings.Fields(head)
	if len(f) < 3 {
		return 0, "", nil, false
	}
	n, err := strconv.Atoi(f[1])
	if err != nil {
		return 0, "", nil, false
	}
	if j := strings.Index(head, " to "); j >= 0 {
		dest = head[j+4:]
	}
	return n, dest, parts[1:], true
}
