//go:build verif

package trzsz

import (
	"bytes"
	"fmt"
	"os"
	"path/filepath"
	"sync"
	"sync/atomic"
	"testing"
	"time"
)

type vfPausePlan struct {
	Dir     string `json:"gate_direction"`
	Index   int    `json:"message_index"`
	Before  bool   `json:"before"`
	Type    string `json:"message_type"`
	PauseMs []int  `json:"pause_ms"` // one entry per pause/resume cycle
	GapMs   int    `json:"gap_ms"`
	Via     string `json:"via"` // api (what the prompt goroutine calls) or keys (Ctrl-C + q on the real filter)
	Tau     int    `json:"timeout_s"`
	// Stall: the server-to-client link stalls when the gate fires, the pauses happen during the stall (the
	// last one ends after the read that was waiting has used up its timer) and the link recovers 200 ms
	// after the last resume; the unpaused silence stays far below the timeout.
	Stall bool `json:"link_stalls_around_the_pauses,omitempty"`
	// ThenSilent: after the last resume the server is never heard again.
	ThenSilent bool `json:"server_silent_after_resume,omitempty"`
	// SilentFirst: the server falls silent at the gate, the pause begins 300 ms later while the client's read is
	// already waiting, and the server stays silent after the resume: the read must still time out.
	SilentFirst bool `json:"server_silent_from_before_the_pause,omitempty"`
	// Resplit: one acknowledgement takes 6.5 s (timeout 20 s), so the sender cuts its buffer size to a sixth and sends the blocks
	// it had already prepared in pieces over a slow uplink (550 ms per piece, so that the size does not grow back at once); the
	// pause begins while a block is under way.
	Resplit bool `json:"pause_while_a_block_is_sent_in_pieces,omitempty"`
}

func vfPauseScenarios() []vfScenario {
	files := []vfFileSpec{{Rel: "first.bin", Size: 60000, Content: "rand"}, {Rel: "second.bin", Size: 400000, Content: "rand"}, {Rel: "third.txt", Size: 5000, Content: "text"}}
	dir := []vfFileSpec{{Rel: "d", Dir: true}, {Rel: "d/a.bin", Size: 200000, Content: "rand"}, {Rel: "d/sub/b.bin", Size: 90000, Content: "rand"}}
	var sc []vfScenario
	add := func(name string, cfg vfCfg, tops []string, specs []vfFileSpec) {
		cfg.Quiet = false
		cfg.Timeout = 3
		sc = append(sc, vfScenario{Name: name, Cfg: cfg, Tops: tops, Specs: specs})
	}
	add("up-p4", vfCfg{Dir: "up", Direct: true, Bufsize: 8192}, []string{"first.bin", "second.bin", "third.txt"}, files)
	add("down-p4", vfCfg{Dir: "down", Direct: true, Bufsize: 8192}, []string{"first.bin", "second.bin", "third.txt"}, files)
	add("up-p3-bin", vfCfg{Dir: "up", Direct: true, Protocol: 3, Binary: true, Bufsize: 65536}, []string{"first.bin", "second.bin"}, files[:2])
	add("down-p3-bin", vfCfg{Dir: "down", Direct: true, Protocol: 3, Binary: true, Bufsize: 65536}, []string{"first.bin", "second.bin"}, files[:2])
	add("up-archive", vfCfg{Dir: "up", Direct: true, Directory: true, Bufsize: 4096}, []string{"d"}, dir)
	add("down-dir-y", vfCfg{Dir: "down", Direct: true, Directory: true, Overwrite: true, Bufsize: 1 << 20}, []string{"d"}, dir)
	add("up-filter", vfCfg{Dir: "up", Bufsize: 8192}, []string{"first.bin", "second.bin"}, files[:2])
	add("down-filter", vfCfg{Dir: "down", Bufsize: 8192}, []string{"first.bin", "second.bin"}, files[:2])
	return sc
}

func TestVF_C18(t *testing.T) {
	scs := vfPauseScenarios()
	var cases []vfCase
	per := vfPick(26, 500)
	for si, sc := range scs {
		for k := 0; k < per; k++ {
			si, sc, k := si, sc, k
			cases = append(cases, vfCase{ID: fmt.Sprintf("%s-p%d", sc.Name, k), Run: func(c *vfCtx) { vfPauseCase(c, si, sc, k) }})
		}
	}
	vfRunCases(t, "C18", cases, 3, 300*time.Second)
}

func vfPauseCase(c *vfCtx, si int, sc vfScenario, k int) {
	r := c.R
	src := filepath.Join(c.Dir, "src")
	if err := vfWriteTree(src, sc.Specs, vfNewRand("scenario", sc.Name)); err != nil {
		c.Inconc("%v", err)
		return
	}
	var paths []string
	for _, t := range sc.Tops {
		paths = append(paths, filepath.Join(src, t))
	}
	bdst := filepath.Join(c.Dir, "dst-base")
	os.MkdirAll(bdst, 0755)
	bcfg := sc.Cfg
	bcfg.Timeout = 60
	bs, bso, bco, fin := vfRunTransfer(c, bcfg, paths, bdst, 120*time.Second)
	if !fin {
		return
	}
	bc2s, bs2c := bs.cliW().Msgs(), bs.srvW().Msgs()
	bs.Close()
	if bso.Kind != "success" || bco.Kind != "success" {
		c.Inconc("baseline failed: %q / %q", vfClip(bso.Text), vfClip(bco.Text))
		return
	}
	os.RemoveAll(bdst)

	tau := 3
	plan := vfPausePlan{Tau: tau, Via: "api", GapMs: 30 + r.Intn(200)}
	if !sc.Cfg.Direct {
		plan.Via = "keys"
	}
	plan.Dir = []string{"c2s", "s2c"}[k%2]
	msgs := bc2s
	if plan.Dir == "s2c" {
		msgs = bs2c
	}
	lo := 2
	if len(msgs) <= lo+1 {
		c.Inconc("transcript too short")
		return
	}
	switch k % 4 {
	case 0: // the buffer-size probing phase is at the start of the first file
		plan.Index = lo + (k/4)%vfMin(10, len(msgs)-lo)
	case 1:
		plan.Index = len(msgs) - 1 - (k/4)%vfMin(6, len(msgs)-lo)
	default:
		plan.Index = lo + r.Intn(len(msgs)-lo)
	}
	plan.Before = r.Intn(2) == 0
	plan.Type = msgs[plan.Index].Type
	// durations: short (must succeed), around the timeout (either), far above (no hang)
	class := "short"
	switch {
	case k%13 == 12:
		class = "long"
		plan.PauseMs = []int{tau * 2500}
	case k%13 == 11:
		class = "around"
		plan.PauseMs = []int{[]int{tau * 900, tau * 1100}[r.Intn(2)]}
	case k%13 == 8:
		class = "silent-then-pause"
		plan.SilentFirst = true
		plan.PauseMs = []int{[]int{300, 800, 1500}[r.Intn(3)]}
		if plan.Dir != "s2c" {
			plan.Dir, msgs = "s2c", bs2c
			plan.Index = vfMin(plan.Index, len(msgs)-1)
			plan.Type = msgs[plan.Index].Type
		}
	case k%13 == 10:
		class = "then-silent"
		plan.ThenSilent = true
		plan.PauseMs = []int{[]int{200, 700}[r.Intn(2)]}
		if r.Intn(2) == 0 {
			plan.PauseMs = append(plan.PauseMs, 300)
		}
	case k%13 == 7 && sc.Cfg.Dir == "up" && sc.Cfg.Bufsize <= 8192:
		var acks []int
		for i := 9; i+6 < len(bs2c); i++ {
			ok := true
			for j := i - 9; j <= i+6; j++ {
				if bs2c[j].Type != "SUCC" || !bytes.Contains(bs2c[j].Full, []byte("/")) {
					ok = false
					break
				}
			}
			if ok {
				acks = append(acks, i)
			}
		}
		if len(acks) == 0 {
			c.Inconc("no run of 16 data acknowledgements in the baseline transcript")
			return
		}
		class = "resplit"
		plan.Resplit = true
		plan.Tau = 20
		plan.PauseMs = []int{2000}
		plan.Dir, msgs = "s2c", bs2c
		plan.Index = acks[r.Intn(vfMin(len(acks), 6))]
		plan.Type = msgs[plan.Index].Type
		plan.Before = true
	case k%13 == 9 && sc.Cfg.Dir == "up" && sc.Cfg.Bufsize <= 8192:
		// Like a slow, busy uplink with a return link that stalls: the first (short) pause happens a few
		// acknowledgements before the stall, the second begins 500 ms into the stall and ends - after
		// 0.9 x timeout - when the ack read that began between the two pauses has used up its timer;
		// the return link recovers 200 ms after the resume.  The server keeps hearing from the client all the time (data
		// chunks every 200 ms, keep-alives while paused), so neither side sees an unpaused silence of more than ~1 s.
		var acks []int
		for i := 9; i+3 < len(bs2c); i++ {
			ok := true
			for j := i - 9; j <= i+3; j++ {
				if bs2c[j].Type != "SUCC" || !bytes.Contains(bs2c[j].Full, []byte("/")) {
					ok = false
					break
				}
			}
			if ok {
				acks = append(acks, i)
			}
		}
		if len(acks) == 0 {
			c.Inconc("no run of 13 data acknowledgements in the baseline transcript")
			return
		}
		class = "stall"
		plan.Stall = true
		plan.PauseMs = []int{200, tau * 900}
		plan.Dir, msgs = "s2c", bs2c
		plan.Index = acks[r.Intn(len(acks))]
		plan.Type = msgs[plan.Index].Type
		plan.Before = true
	default:
		n := 1 + r.Intn(3)
		for i := 0; i < n; i++ {
			plan.PauseMs = append(plan.PauseMs, []int{150, 200, 400, 700, 1000}[r.Intn(5)])
		}
	}
	dst := filepath.Join(c.Dir, "dst")
	os.MkdirAll(dst, 0755)
	c.Replay(map[string]interface{}{"scenario": sc.Name, "cfg": sc.Cfg, "plan": plan})
	srcTree := vfSnapshot(src)

	scfg := sc.Cfg
	if plan.Resplit {
		scfg.Timeout = plan.Tau
		tau = plan.Tau
	}
	s := vfNewSession(c, scfg)
	var mu sync.Mutex
	fired := false
	type window struct{ p, r int64 }
	var windows []window
	var bufBefore, bufAfter int64
	totalPause := time.Duration(0)
	for _, ms := range plan.PauseMs {
		totalPause += time.Duration(ms) * time.Millisecond
	}
	clientTransfer := func() *trzszTransfer {
		if s.cfg.Direct {
			return s.ct
		}
		return s.filter.transfer.Load()
	}
	var slowUplink atomic.Bool
	cyclesFrom := func(from, to int) {
		for i, ms := range plan.PauseMs {
			if i < from || i >= to {
				continue
			}
			ct := clientTransfer()
			if ct == nil {
				return
			}
			if i == 0 {
				bufBefore = ct.bufferSize.Load()
			}
			p := vfNextSeq()
			if plan.Via == "api" {
				ct.pauseTransferringFiles()
			} else {
				s.clientIn.WriteAtomic([]byte{0x03})
				for dl := time.Now().Add(3 * time.Second); !ct.pausing.Load() && time.Now().Before(dl); {
					time.Sleep(time.Millisecond)
				}
				p = vfNextSeq()                    // the window starts once the pause has taken effect
				time.Sleep(120 * time.Millisecond) // the prompt is drawn
			}
			time.Sleep(time.Duration(ms) * time.Millisecond)
			rs := vfNextSeq()
			if plan.Via == "api" {
				ct.resumeTransferringFiles()
			} else {
				s.clientIn.WriteAtomic([]byte("q"))
				time.Sleep(80 * time.Millisecond)
			}
			mu.Lock()
			windows = append(windows, window{p, rs})
			mu.Unlock()
			last := i == len(plan.PauseMs)-1
			if last && plan.ThenSilent {
				s.srvW().SetSilent(true)
			}
			if last && plan.Stall {
				time.Sleep(200 * time.Millisecond)
			} else {
				time.Sleep(time.Duration(plan.GapMs) * time.Millisecond)
			}
			bufAfter = ct.bufferSize.Load()
		}
	}
	cycles := func() { cyclesFrom(0, len(plan.PauseMs)) }
	cyclesDone := make(chan struct{})
	gate := func(ev vfGateEvent) {
		if plan.Stall && ev.Before == plan.Before {
			if ev.Index == plan.Index-8 {
				slowUplink.Store(true)
			}
			if ev.Index == plan.Index-4 {
				go cyclesFrom(0, 1) // the first, ordinary pause; over long before the stall (4 chunks x 200 ms later)
			}
		}
		if ev.Index != plan.Index || ev.Before != plan.Before {
			return
		}
		mu.Lock()
		if fired {
			mu.Unlock()
			return
		}
		fired = true
		mu.Unlock()
		if plan.Resplit { // this acknowledgement takes 6.5 s; then the pause begins while the prepared blocks go out in pieces
			time.Sleep(6500 * time.Millisecond)
			slowUplink.Store(true)
			go func() {
				defer close(cyclesDone)
				time.Sleep(800 * time.Millisecond) // the second piece of the first re-split block is under way
				cycles()
				time.Sleep(300 * time.Millisecond)
				slowUplink.Store(false)
			}()
			return
		}
		if plan.Stall { // the return link is held from here on
			defer close(cyclesDone)
			time.Sleep(500 * time.Millisecond)
			cyclesFrom(1, 2)
			slowUplink.Store(false)
			return
		}
		if plan.SilentFirst {
			s.srvW().SetSilent(true)
		}
		go func() {
			defer close(cyclesDone)
			if plan.SilentFirst {
				time.Sleep(300 * time.Millisecond)
			}
			cycles()
		}()
		if plan.Via == "api" {
			time.Sleep(2 * time.Millisecond) // let the pause flag be set while this message is in flight
		}
	}
	if plan.Dir == "c2s" {
		s.cliW().SetGate(gate)
	} else {
		s.srvW().SetGate(gate)
	}
	if plan.Stall || plan.Resplit {
		per := 200 * time.Millisecond
		if plan.Resplit {
			// above the 500 ms below which a prompt acknowledgement would double the buffer size again
			per = 550 * time.Millisecond
		}
		s.cliW().SetGate(func(ev vfGateEvent) {
			if ev.Before && ev.Type == "DATA" && slowUplink.Load() {
				time.Sleep(per)
			}
		})
	}
	t0 := time.Now()
	s.Start(paths, dst)
	bound := totalPause + time.Duration(len(plan.PauseMs))*500*time.Millisecond + time.Duration(tau)*time.Second + 25*time.Second
	okS := s.WaitServer(bound)
	okC := s.WaitClient(bound)
	mu.Lock()
	didFire := fired
	mu.Unlock()
	if !okS || !okC {
		c.Slow("c18-hang:"+class, "%s: pause plan %+v: server returned=%v client returned=%v within %v", sc.Name, plan, okS, okC, bound)
		s.Close()
		return
	}
	if !didFire {
		s.Close()
		c.Obs("pause_point_not_reached", 1)
		return
	}
	select {
	case <-cyclesDone:
	case <-time.After(totalPause + 10*time.Second):
	}
	so, co := s.ServerOutcome(), s.ClientOutcome()
	dstTree := vfSnapshot(dst)
	tap := s.cliW().Tap()
	cmsgs := s.cliW().Msgs()
	s.Close()
	elapsed := time.Since(t0)
	// (2) never success with wrong content
	if so.Kind == "success" || co.Kind == "success" {
		names := vfReportedNames(sc.Cfg, so, co)
		if len(names) == 0 {
			names = sc.Tops
		}
		for i, top := range sc.Tops {
			if i >= len(names) {
				c.Viol("c18-success-name-count", "success with names %q for %q", names, sc.Tops)
				return
			}
			if d := vfTreeSubEqual(srcTree, top, dstTree, names[i]); d != "" {
				c.Viol("c18-success-but-wrong:"+class, "%s: pause plan %+v: a side reports success (server=%s client=%s) but %s", sc.Name, plan, so.Kind, co.Kind, d)
				return
			}
		}
	}
	// (1) short pauses must complete
	if (class == "short" || class == "stall" || class == "resplit") && (so.Kind != "success" || co.Kind != "success") {
		if vfIsTimeoutText(so.Text) || vfIsTimeoutText(co.Text) {
			c.Slow("c18-short-pause-failed-timeout", "%s: pause(s) of %v ms (timeout %d s) at %s message %d (%s): server=%q client=%q", sc.Name, plan.PauseMs, tau, plan.Dir, plan.Index, plan.Type, vfClip(so.Text), vfClip(co.Text))
		} else {
			c.Viol("c18-short-pause-failed:"+vfErrClass(so.Text+"|"+co.Text), "%s: pause(s) of %v ms (timeout %d s) at %s message %d (%s): server=%s/%q client=%s/%q", sc.Name, plan.PauseMs, tau, plan.Dir, plan.Index, plan.Type, so.Kind, vfClip(so.Text), co.Kind, vfClip(co.Text))
		}
		return
	}
	// (3) while paused the paused side (the client) starts at most one DATA message per window; keep-alives take its place
	mu.Lock()
	ws := append([]window(nil), windows...)
	mu.Unlock()
	keepalives := 0
	for _, w := range ws {
		started := 0
		for _, m := range cmsgs {
			if m.Seq <= w.p || m.Seq >= w.r || m.End == 0 {
				continue
			}
			line := bytes.TrimRight(tap[m.Start:vfMinI64(m.End, m.Start+200)], "\n!")
			isKeepAlive := bytes.Equal(line, []byte("#DATA:=")) || bytes.Equal(line, []byte("#SUCC:="))
			if isKeepAlive {
				keepalives++
				continue
			}
			if m.Type == "DATA" && sc.Cfg.Dir == "up" {
				started++
			}
		}
		if started > 1 {
			c.Viol("c18-data-sent-while-paused", "%s: the paused client started %d DATA messages between pause (seq %d) and resume (seq %d); plan %+v", sc.Name, started, w.p, w.r, plan)
			return
		}
	}
	c.Obs("keepalive_lines_seen", int64(keepalives))
	if plan.Via == "api" && sc.Cfg.EffProtocol() >= 3 && totalPause >= 600*time.Millisecond && keepalives == 0 && (so.Kind == "success") && plan.Index < len(msgs)-3 {
		c.Obs("pauses_without_keepalive", 1)
	}
	if bufAfter < bufBefore && bufBefore > 0 {
		c.Obs("buffer_size_lower_after_pause", 1)
	}
	if plan.Resplit {
		c.Obs("resplit_buffer_size_at_pause", bufBefore)
		nd := 0
		for _, m := range cmsgs {
			if m.Type == "DATA" {
				nd++
			}
		}
		c.Obs("resplit_data_messages", int64(nd))
	}
	c.Obs("pause_cycles", int64(len(ws)))
	c.Obs("elapsed_ms_total", elapsed.Milliseconds())
	c.SetAdd("pause_points", plan.Dir+":"+plan.Type+map[bool]string{true: ":before", false: ":after"}[plan.Before])
	outcome := "success"
	if so.Kind != "success" || co.Kind != "success" {
		outcome = "error"
	}
	c.Obs("outcome_"+class+"_"+outcome, 1)
	c.Nontrivial(fmt.Sprintf("%s %s#%d %v %v via=%s %s", sc.Name, plan.Dir, plan.Index, plan.Before, plan.PauseMs, plan.Via, outcome))
	if k < 2 {
		c.Sample(map[string]interface{}{"scenario": sc.Name, "plan": plan, "server": so.Kind, "client": co.Kind, "keepalives": keepalives, "buffer_before": bufBefore, "buffer_after": bufAfter})
	}
}
