//go:build verif

package trzsz

import (
	"bytes"
	"fmt"
	"net"
	"os"
	"path/filepath"
	"regexp"
	"sort"
	"strconv"
	"strings"
	"sync"
	"syscall"
	"testing"
	"time"
)

// ---------------------------------------------------------------- relay rig with tagged tokens

type vfRelayRig struct {
	c         *vfCtx
	relay     *TrzszRelay
	clientIn  *vfWire // harness (client) -> relay
	serverOut *vfWire // harness (server) -> relay
	toServer  *vfSink // relay -> server
	toClient  *vfSink // relay -> client
	nc, ns    int     // token counters
	idn       int64
	// relay inside tmux (normal mode): while a transfer is on, server output goes to the client's tty directly
	// (toBypass) instead of the pane (toClient)
	tmux     bool
	toBypass *vfSink
	curSink  byte // sink expected for the server tokens generated next: 'p' pane, 'b' bypass
	// last tunnel episode: the ACT JSON the client wrote into the tunnel and the ACT line that reached the server (C14)
	tunActIn, tunActOut string
}

var vfTmuxRelayMu sync.Mutex

func vfNewRelayRig(c *vfCtx) *vfRelayRig {
	r := &vfRelayRig{c: c, clientIn: vfNewWire("rci"), serverOut: vfNewWire("rso"), toServer: vfNewSink(), toClient: vfNewSink(), curSink: 'p'}
	if os.Getenv("VF_TMUXRELAY") != "" {
		// the fake tmux answers the client-tty question with a FIFO of this rig; the environment is process-wide,
		// so relays are created one at a time
		fifo := filepath.Join(c.Dir, "client-tty")
		if err := syscall.Mkfifo(fifo, 0600); err == nil {
			r.tmux = true
			r.toBypass = vfNewSink()
			go func() {
				f, err := os.OpenFile(fifo, os.O_RDONLY, 0)
				if err != nil {
					return
				}
				buf := make([]byte, 32*1024)
				for {
					n, err := f.Read(buf)
					if n > 0 {
						r.toBypass.Write(buf[:n])
					}
					if err != nil {
						return
					}
				}
			}()
			vfTmuxRelayMu.Lock()
			os.Setenv("TMUX", "/tmp/vf-fake-tmux,1,0")
			os.Setenv("VF_TMUX_REPLY", fifo+":0:80")
			r.relay = NewTrzszRelay(r.clientIn, r.toClient, r.toServer, r.serverOut, TrzszOptions{})
			os.Unsetenv("TMUX")
			vfTmuxRelayMu.Unlock()
			if r.relay.tmuxMode != tmuxNormalMode {
				c.Inconc("the relay did not come up in tmux normal mode (mode %v)", r.relay.tmuxMode)
			}
			return r
		}
	}
	r.relay = NewTrzszRelay(r.clientIn, r.toClient, r.toServer, r.serverOut, TrzszOptions{})
	return r
}

// sOut is everything the relay sent towards the client since the given offsets, pane then bypass.
func (r *vfRelayRig) sWait(s0, b0 int, needle []byte, d time.Duration) bool {
	deadline := time.Now().Add(d)
	for {
		if bytes.Contains(r.toClient.Bytes()[s0:], needle) || r.tmux && bytes.Contains(r.toBypass.Bytes()[b0:], needle) {
			return true
		}
		if time.Now().After(deadline) {
			return false
		}
		time.Sleep(200 * time.Microsecond)
	}
}

func (r *vfRelayRig) Close() {
	r.clientIn.Close()
	r.serverOut.Close()
}

type vfTok struct {
	id    int
	class string // must, junk (on the consumed line: vanishes), race (a prefix may pass before the rewritten line)
	after bool   // must appear after the special line of its direction
	sink  byte   // server tokens with the relay in tmux: 'p' pane, 'b' bypass
}

func (r *vfRelayRig) ctoks(n int, class string, after bool, acc *[]vfTok) []byte {
	var b []byte
	for i := 0; i < n; i++ {
		r.nc++
		b = append(b, fmt.Sprintf("<c%07d>", r.nc)...)
		*acc = append(*acc, vfTok{r.nc, class, after, 0})
	}
	return b
}

func (r *vfRelayRig) stoks(n int, class string, after bool, acc *[]vfTok) []byte {
	var b []byte
	for i := 0; i < n; i++ {
		r.ns++
		b = append(b, fmt.Sprintf("<s%07d>", r.ns)...)
		*acc = append(*acc, vfTok{r.ns, class, after, r.curSink})
	}
	return b
}

// writeSplit writes p in pieces chosen by policy (0 whole, 1 one byte each, 2 random cuts).
func vfWriteSplit(w *vfWire, p []byte, policy int, rnd *vfRand) {
	switch policy {
	case 1:
		for i := range p {
			w.WriteAtomic(p[i : i+1])
		}
	case 2:
		for i := 0; i < len(p); {
			n := 1 + rnd.Intn(rnd.PickInt(3, 12, 40))
			if i+n > len(p) {
				n = len(p) - i
			}
			w.WriteAtomic(p[i : i+n])
			i += n
		}
	default:
		w.WriteAtomic(p)
	}
}

func vfWaitSink(s *vfSink, from int, needle []byte, d time.Duration) bool {
	deadline := time.Now().Add(d)
	for {
		if bytes.Contains(s.Bytes()[from:], needle) {
			return true
		}
		if time.Now().After(deadline) {
			return false
		}
		time.Sleep(200 * time.Microsecond)
	}
}

type vfItem struct {
	tok  int    // token id, or -1
	line string // special line (without LF) when tok < 0
}

// vfParseTagged splits a relay output stream into tokens of the given tag and '#'/trigger lines.
func vfParseTagged(b []byte, tag byte) (items []vfItem, bad string) {
	i := 0
	for i < len(b) {
		switch {
		case b[i] == '<' && i+10 <= len(b) && b[i+1] == tag && b[i+9] == '>':
			n, err := strconv.Atoi(string(b[i+2 : i+9]))
			if err != nil {
				return items, fmt.Sprintf("malformed token at %d: %q", i, vfHead(b[i:], 20))
			}
			items = append(items, vfItem{tok: n})
			i += 10
		case b[i] == '<' && i+1 < len(b) && (b[i+1] == 'c' || b[i+1] == 's') && b[i+1] != tag:
			return items, fmt.Sprintf("token of the other direction at %d: %q", i, vfHead(b[i:], 12))
		case b[i] == '#' || b[i] == ':' || b[i] == 0x1b:
			j := bytes.IndexByte(b[i:], '\n')
			if j < 0 {
				return items, fmt.Sprintf("unterminated line at %d: %q", i, vfHead(b[i:], 60))
			}
			items = append(items, vfItem{tok: -1, line: string(b[i : i+j])})
			i += j + 1
		default:
			return items, fmt.Sprintf("unexpected byte 0x%02x at %d: %q", b[i], i, vfHead(b[vfMax(0, i-12):], 40))
		}
	}
	return items, ""
}

// vfCheckDirection applies the conservation oracle to one direction of one episode.
func vfCheckDirection(c *vfCtx, dirName string, out []byte, tag byte, toks []vfTok, wantSpecial []string, kind string) bool {
	items, bad := vfParseTagged(out, tag)
	if bad != "" {
		c.Viol("c13-garbage:"+dirName, "%s (%s episode): %s", dirName, kind, bad)
		return false
	}
	class := map[int]vfTok{}
	for _, t := range toks {
		class[t.id] = t
	}
	seen := map[int]bool{}
	last := 0
	specials := 0
	sawSpecial := false
	var specialLines []string
	racePassed := -1
	for _, it := range items {
		if it.tok < 0 {
			specialLines = append(specialLines, it.line)
			specials++
			sawSpecial = true
			continue
		}
		t, ok := class[it.tok]
		if !ok {
			c.Viol("c13-foreign-token:"+dirName, "%s (%s): token %d was never sent in this episode", dirName, kind, it.tok)
			return false
		}
		if seen[it.tok] {
			c.Viol("c13-duplicated:"+dirName, "%s (%s): token %d delivered twice", dirName, kind, it.tok)
			return false
		}
		seen[it.tok] = true
		if it.tok < last {
			c.Viol("c13-reordered:"+dirName, "%s (%s): token %d delivered after token %d", dirName, kind, it.tok, last)
			return false
		}
		last = it.tok
		switch t.class {
		case "must":
			if t.after && !sawSpecial && len(wantSpecial) > 0 {
				c.Viol("c13-overtook-handshake-line:"+dirName, "%s (%s): token %d, sent after the handshake line, was delivered before the rewritten line", dirName, kind, it.tok)
				return false
			}
			if !t.after && sawSpecial && len(wantSpecial) > 0 {
				c.Viol("c13-delayed-behind-handshake-line:"+dirName, "%s (%s): token %d, delivered to the relay before the trigger, came out after the rewritten line", dirName, kind, it.tok)
				return false
			}
		case "junk":
			c.Viol("c13-junk-delivered:"+dirName, "%s (%s): token %d was part of the consumed handshake line but was delivered", dirName, kind, it.tok)
			return false
		case "race":
			if sawSpecial {
				c.Viol("c13-race-token-after-line:"+dirName, "%s (%s): token %d raced with the switch to handshaking and was delivered after the rewritten line instead of before it or not at all", dirName, kind, it.tok)
				return false
			}
			racePassed = it.tok
		}
	}
	// race tokens: the delivered ones form a prefix
	for _, t := range toks {
		if t.class == "race" && t.id < racePassed && !seen[t.id] {
			c.Viol("c13-lost:"+dirName, "%s (%s): racing token %d is missing although the later token %d was delivered", dirName, kind, t.id, racePassed)
			return false
		}
		if t.class == "must" && !seen[t.id] {
			c.Viol("c13-lost:"+dirName, "%s (%s): token %d was lost (%d of %d tokens delivered)", dirName, kind, t.id, len(seen), len(toks))
			return false
		}
	}
	if specials != len(wantSpecial) {
		c.Viol("c13-special-lines:"+dirName, "%s (%s): expected %d protocol lines %v, found %d: %q", dirName, kind, len(wantSpecial), wantSpecial, specials, specialLines)
		return false
	}
	for i, w := range wantSpecial {
		if !strings.Contains(specialLines[i], w) {
			c.Viol("c13-special-lines:"+dirName, "%s (%s): protocol line %d is %q, expected one containing %q", dirName, kind, i, vfHead([]byte(specialLines[i]), 80), w)
			return false
		}
	}
	c.Obs("tokens_checked", int64(len(seen)))
	return true
}

const vfActJSON = `{"lang":"go","version":"1.1.5","confirm":%v,"newline":"\n","protocol":%d,"binary":true,"support_dir":true}`
const vfCfgJSON = `{"lang":"go","bufsize":10485760,"timeout":20,"protocol":4}`

// episode runs one handshake through the relay with tokens around it. kind: confirm, cancel, bad-act, bad-cfg.
func (r *vfRelayRig) episode(kind string, rnd *vfRand) bool {
	c := r.c
	var ct, st []vfTok
	c0, s0 := r.toServer.Len(), r.toClient.Len()
	b0 := 0
	if r.tmux {
		b0 = r.toBypass.Len()
	}
	r.curSink = 'p'
	pol := func() int { return rnd.Intn(3) }
	// (a) standby traffic, quiesced
	pre := r.ctoks(1+rnd.Intn(4), "must", false, &ct)
	vfWriteSplit(r.clientIn, pre, pol(), rnd)
	spre := r.stoks(1+rnd.Intn(4), "must", false, &st)
	vfWriteSplit(r.serverOut, spre, pol(), rnd)
	if !vfWaitSink(r.toServer, c0, pre[len(pre)-10:], 10*time.Second) || !vfWaitSink(r.toClient, s0, spre[len(spre)-10:], 10*time.Second) {
		c.Slow("c13-standby-lost", "standby tokens did not pass the relay within 10 s")
		return false
	}
	if st := r.relay.relayStatus.Load(); st != kRelayStandBy {
		c.Viol("c13-not-standby", "relay status is %d before the episode", st)
		return false
	}
	// (b) the trigger, with server tokens in the same write, and client tokens racing with it
	r.idn++
	id := fmt.Sprintf("%011d00", (time.Now().UnixMilli()%1e7)*10000+r.idn%10000)
	trig := fmt.Sprintf("::TRZSZ:TRANSFER:R:1.1.5:%s:0\r\n", id)
	var chunk []byte
	chunk = append(chunk, r.stoks(rnd.Intn(3), "must", false, &st)...)
	chunk = append(chunk, trig...)
	chunk = append(chunk, r.stoks(rnd.Intn(3), "must", true, &st)...) // same read as the trigger: forwarded with it
	race := r.ctoks(rnd.Intn(4), "race", false, &ct)
	r.serverOut.WriteAtomic(chunk)
	for i := 0; i+10 <= len(race); i += 10 {
		r.clientIn.WriteAtomic(race[i : i+10]) // one token per read: it passes or is parked as a whole
	}
	// server output after the trigger and before the CFG line is part of the line the relay consumes
	lateClass := "junk"
	if kind == "cancel" || kind == "bad-act" {
		lateClass = "must" // no CFG line is consumed: everything parked is flushed
	}
	late := r.stoks(rnd.Intn(3), lateClass, true, &st)
	if !vfWaitSink(r.toClient, s0, []byte("#R"), 10*time.Second) {
		c.Slow("c13-trigger-not-forwarded", "the trigger did not reach the client side within 10 s")
		return false
	}
	if len(late) > 0 {
		vfWriteSplit(r.serverOut, late, pol(), rnd)
	}
	// (c) the client's ACT line with tokens around it
	confirm := kind != "cancel"
	actLine := "#ACT:" + encodeString(fmt.Sprintf(vfActJSON, confirm, 4+rnd.Intn(3))) + "\n"
	if kind == "bad-act" {
		actLine = "#ACT:!!!not-base64!!!\n"
	}
	var bundle []byte
	bundle = append(bundle, r.ctoks(rnd.Intn(3), "junk", false, &ct)...)
	bundle = append(bundle, actLine...)
	bundle = append(bundle, r.ctoks(rnd.Intn(4), "must", true, &ct)...)
	vfWriteSplit(r.clientIn, bundle, pol(), rnd)
	wantC := []string{"#ACT:"}
	wantS := []string{"::TRZSZ:TRANSFER:"}
	if kind == "bad-act" {
		wantC = []string{"#FAIL:"}
		wantS = append(wantS, "#FAIL:")
	}
	if !vfWaitSink(r.toServer, c0, []byte(wantC[0]), 10*time.Second) {
		c.Slow("c13-act-not-forwarded", "%s: no %s line reached the server side within 10 s", kind, wantC[0])
		return false
	}
	// (d) client tokens while the relay waits for the CFG line; the server's CFG bundle
	post := r.ctoks(1+rnd.Intn(4), "must", true, &ct)
	if kind == "confirm" || kind == "bad-cfg" {
		cfgLine := "#CFG:" + encodeString(vfCfgJSON) + "\n"
		if kind == "bad-cfg" {
			cfgLine = "#CFG:%%%garbage%%%\n"
		}
		var sb []byte
		sb = append(sb, r.stoks(rnd.Intn(3), "junk", true, &st)...)
		sb = append(sb, cfgLine...)
		if kind == "confirm" {
			r.curSink = 'b' // from the CFG line to the end of the transfer the server's bytes bypass tmux
		}
		sb = append(sb, r.stoks(rnd.Intn(4), "must", true, &st)...)
		done := make(chan struct{})
		rnd2 := vfNewRand("c13-post", rnd.U64()) // the concurrent writer has its own generator
		pol2 := rnd2.Intn(3)
		go func() {
			vfWriteSplit(r.clientIn, post, pol2, rnd2)
			close(done)
		}()
		vfWriteSplit(r.serverOut, sb, pol(), rnd)
		<-done
		if kind == "confirm" {
			wantS = append(wantS, "#CFG:")
		} else {
			wantS = append(wantS, "#FAIL:")
			wantC = append(wantC, "#FAIL:")
		}
		if !r.sWait(s0, b0, []byte(wantS[len(wantS)-1]), 10*time.Second) {
			c.Slow("c13-cfg-not-forwarded", "%s: no %s line reached the client side within 10 s", kind, wantS[len(wantS)-1])
			return false
		}
	} else {
		vfWriteSplit(r.clientIn, post, pol(), rnd)
	}
	// (e) traffic afterwards, then the end of the transfer
	tail := r.ctoks(1+rnd.Intn(3), "must", true, &ct)
	stail := r.stoks(1+rnd.Intn(3), "must", true, &st)
	vfWriteSplit(r.clientIn, tail, pol(), rnd)
	vfWriteSplit(r.serverOut, stail, pol(), rnd)
	if !vfWaitSink(r.toServer, c0, tail[len(tail)-10:], 10*time.Second) || !r.sWait(s0, b0, stail[len(stail)-10:], 10*time.Second) {
		gotC, gotS := r.toServer.Bytes()[c0:], r.toClient.Bytes()[s0:]
		c.Slow("c13-lost:tail", "%s: the last tokens did not come out within 10 s (status %d); to-server tail %q; to-client tail %q", kind, r.relay.relayStatus.Load(), vfHead(gotC[vfMax(0, len(gotC)-60):], 60), vfHead(gotS[vfMax(0, len(gotS)-60):], 60))
		return false
	}
	if kind == "confirm" {
		r.clientIn.WriteAtomic([]byte("#EXIT:" + encodeString("Saved 1 file") + "\n"))
		wantC = append(wantC, "#EXIT:")
		if !vfWaitSink(r.toServer, c0, []byte("#EXIT:"), 10*time.Second) {
			c.Slow("c13-exit-not-forwarded", "the EXIT line did not pass")
			return false
		}
	}
	deadline := time.Now().Add(5 * time.Second)
	for r.relay.relayStatus.Load() != kRelayStandBy && time.Now().Before(deadline) {
		time.Sleep(time.Millisecond)
	}
	if stt := r.relay.relayStatus.Load(); stt != kRelayStandBy {
		c.Viol("c13-not-standby-after:"+kind, "relay status is %d after the %s episode ended", stt, kind)
		return false
	}
	r.curSink = 'p'
	outC := r.toServer.Bytes()[c0:]
	outS := r.toClient.Bytes()[s0:]
	if !vfCheckDirection(c, "client->server", outC, 'c', ct, wantC, kind) {
		return false
	}
	if r.tmux {
		// two sinks: every server token has one it belongs to (pane before the CFG line of a confirmed handshake and
		// after the end of the transfer, the client's tty in between); each sink is checked on its own tokens
		// the client tty is a FIFO drained by a goroutine: a line written there may still be on its way
		for _, w := range wantS {
			if !r.sWait(s0, b0, []byte(w), 10*time.Second) {
				c.Slow("c13-special-line-late", "%s: the %s line did not reach either sink within 10 s", kind, w)
				return false
			}
		}
		time.Sleep(2 * time.Millisecond)
		outS = r.toClient.Bytes()[s0:]
		outB := r.toBypass.Bytes()[b0:]
		var stP, stB []vfTok
		for _, t := range st {
			if t.sink == 'b' {
				stB = append(stB, t)
			} else {
				stP = append(stP, t)
			}
		}
		var wantP, wantB []string
		for _, w := range wantS {
			// the CFG line travels on the bypass; a FAIL line written by the relay itself may take either way
			if w == "#CFG:" || w == "#FAIL:" && bytes.Contains(outB, []byte("#FAIL:")) {
				wantB = append(wantB, w)
			} else {
				wantP = append(wantP, w)
			}
		}
		if !vfCheckDirection(c, "server->pane", outS, 's', stP, wantP, kind) {
			return false
		}
		if !vfCheckDirection(c, "server->client-tty", outB, 's', stB, wantB, kind) {
			return false
		}
		c.Obs("episodes_tmux_relay_"+kind, 1)
		return true
	}
	if !vfCheckDirection(c, "server->client", outS, 's', st, wantS, kind) {
		return false
	}
	c.Obs("episodes_"+kind, 1)
	return true
}

// vfPumpConn copies everything read from conn into a sink.
func vfPumpConn(conn net.Conn, sink *vfSink) {
	buf := make([]byte, 32*1024)
	for {
		n, err := conn.Read(buf)
		if n > 0 {
			sink.Write(buf[:n])
		}
		if err != nil {
			return
		}
	}
}

func vfConnWriteSplit(conn net.Conn, p []byte, policy int, rnd *vfRand) {
	switch policy {
	case 1:
		for i := 0; i < len(p); i += 3 {
			conn.Write(p[i:vfMin(len(p), i+3)])
		}
	case 2:
		for i := 0; i < len(p); {
			n := 1 + rnd.Intn(rnd.PickInt(5, 20, 60))
			if i+n > len(p) {
				n = len(p) - i
			}
			conn.Write(p[i : i+n])
			i += n
			if rnd.Intn(4) == 0 {
				time.Sleep(200 * time.Microsecond)
			}
		}
	default:
		conn.Write(p)
	}
}

var vfTrigPortRe = regexp.MustCompile(`::TRZSZ:TRANSFER:R:1\.1\.5:(\d+):(\d+)`)

// tunnelEpisode: one confirmed handshake whose ACT/CFG and tokens travel through the relay's tunnel.
func (r *vfRelayRig) tunnelEpisode(rnd *vfRand) bool {
	c := r.c
	var ct, st []vfTok
	pol := func() int { return rnd.Intn(3) }
	listener, err := net.Listen("tcp", "127.0.0.1:0")
	if err != nil {
		c.Inconc("listen: %v", err)
		return false
	}
	defer listener.Close()
	port := listener.Addr().(*net.TCPAddr).Port
	srvConnCh := make(chan net.Conn, 1)
	r.idn++
	id := fmt.Sprintf("%011d00", (time.Now().UnixMilli()%1e7)*10000+r.idn%10000)
	go func() {
		conn, err := listener.Accept()
		if err != nil {
			return
		}
		buf := make([]byte, 100)
		n, _ := conn.Read(buf)
		clientHello, serverHello := getHelloConstant(id, port)
		if string(buf[:n]) != clientHello {
			conn.Close()
			return
		}
		conn.Write([]byte(serverHello))
		srvConnCh <- conn
	}()
	s0 := r.toClient.Len()
	// in-band traffic before, quiesced
	c0 := r.toServer.Len()
	var ibc, ibs []vfTok
	pre := r.ctoks(2, "must", false, &ibc)
	spre := r.stoks(2, "must", false, &ibs)
	r.clientIn.WriteAtomic(pre)
	r.serverOut.WriteAtomic(spre)
	if !vfWaitSink(r.toServer, c0, pre[len(pre)-10:], 10*time.Second) || !vfWaitSink(r.toClient, s0, spre[len(spre)-10:], 10*time.Second) {
		c.Slow("c13-standby-lost", "standby tokens did not pass before the tunnel episode")
		return false
	}
	t0 := r.toClient.Len()
	r.serverOut.WriteAtomic([]byte(fmt.Sprintf("::TRZSZ:TRANSFER:R:1.1.5:%s:%d\r\n", id, port)))
	if !vfWaitSink(r.toClient, t0, []byte("#R"), 10*time.Second) {
		c.Slow("c13-trigger-not-forwarded", "tunnel episode: the trigger did not reach the client side")
		return false
	}
	m := vfTrigPortRe.FindSubmatch(r.toClient.Bytes()[t0:])
	if m == nil {
		c.Viol("c13-trigger-malformed", "tunnel episode: forwarded trigger %q", vfHead(r.toClient.Bytes()[t0:], 80))
		return false
	}
	var relayPort int
	fmt.Sscanf(string(m[2]), "%d", &relayPort)
	if relayPort == port || relayPort == 0 {
		c.Viol("c13-tunnel-port-not-rewritten", "the relay forwarded the server's own tunnel port %d", port)
		return false
	}
	cconn, err := net.DialTimeout("tcp", fmt.Sprintf("127.0.0.1:%d", relayPort), 2*time.Second)
	if err != nil {
		c.Viol("c13-tunnel-listener", "cannot connect to the relay's tunnel port %d: %v", relayPort, err)
		return false
	}
	defer cconn.Close()
	clientHello, serverHello := getHelloConstant(string(m[1]), relayPort)
	cconn.Write([]byte(clientHello))
	hb := make([]byte, 100)
	cconn.SetReadDeadline(time.Now().Add(5 * time.Second))
	n, _ := cconn.Read(hb)
	cconn.SetReadDeadline(time.Time{})
	if string(hb[:n]) != serverHello {
		c.Viol("c13-tunnel-greeting", "relay answered the tunnel greeting with %q", hb[:n])
		return false
	}
	var sconn net.Conn
	select {
	case sconn = <-srvConnCh:
	case <-time.After(5 * time.Second):
		c.Slow("c13-tunnel-server-side", "the relay never connected to the server's tunnel port")
		return false
	}
	defer sconn.Close()
	fromClient, fromServer := vfNewSink(), vfNewSink() // what arrives at the server / at the client through the tunnel
	go vfPumpConn(sconn, fromClient)
	go vfPumpConn(cconn, fromServer)
	// the client's ACT through the tunnel, with tokens around it
	r.tunActIn = fmt.Sprintf(`{"lang":"go","version":"1.1.5","confirm":true,"newline":"\n","protocol":%d,"binary":true,"support_dir":true,"tunnel":true}`, 4+rnd.Intn(3))
	r.tunActOut = ""
	act := "#ACT:" + encodeString(r.tunActIn) + "\n"
	var bundle []byte
	bundle = append(bundle, r.ctoks(rnd.Intn(3), "junk", false, &ct)...)
	bundle = append(bundle, act...)
	bundle = append(bundle, r.ctoks(1+rnd.Intn(4), "must", true, &ct)...)
	vfConnWriteSplit(cconn, bundle, pol(), rnd)
	if !vfWaitSink(fromClient, 0, []byte("#ACT:"), 10*time.Second) {
		c.Slow("c13-act-not-forwarded", "tunnel episode: no ACT reached the server through the tunnel")
		return false
	}
	if vfWaitSink(fromClient, 0, []byte("\n"), 10*time.Second) {
		r.tunActOut, _, _ = vfRawLine(fromClient.Bytes(), "#ACT:")
	}
	post := r.ctoks(1+rnd.Intn(4), "must", true, &ct)
	var sb []byte
	sb = append(sb, r.stoks(rnd.Intn(3), "junk", false, &st)...)
	sb = append(sb, "#CFG:"+encodeString(vfCfgJSON)+"\n"...)
	sb = append(sb, r.stoks(1+rnd.Intn(4), "must", true, &st)...)
	done := make(chan struct{})
	rnd2 := vfNewRand("c13-tunnel-post", rnd.U64())
	pol2 := rnd2.Intn(3)
	go func() {
		vfConnWriteSplit(cconn, post, pol2, rnd2)
		close(done)
	}()
	vfConnWriteSplit(sconn, sb, pol(), rnd)
	<-done
	if !vfWaitSink(fromServer, 0, []byte("#CFG:"), 10*time.Second) {
		c.Slow("c13-cfg-not-forwarded", "tunnel episode: no CFG reached the client through the tunnel")
		return false
	}
	tail := r.ctoks(1+rnd.Intn(3), "must", true, &ct)
	stail := r.stoks(1+rnd.Intn(3), "must", true, &st)
	vfConnWriteSplit(cconn, tail, pol(), rnd)
	vfConnWriteSplit(sconn, stail, pol(), rnd)
	if !vfWaitSink(fromClient, 0, tail[len(tail)-10:], 10*time.Second) || !vfWaitSink(fromServer, 0, stail[len(stail)-10:], 10*time.Second) {
		c.Slow("c13-lost:tunnel-tail", "tunnel episode: the last tokens did not come out (status %d)", r.relay.relayStatus.Load())
		return false
	}
	cconn.Write([]byte("#EXIT:" + encodeString("Saved 1 file") + "\n"))
	if !vfWaitSink(fromClient, 0, []byte("#EXIT:"), 10*time.Second) {
		c.Slow("c13-exit-not-forwarded", "tunnel episode: the EXIT line did not pass")
		return false
	}
	deadline := time.Now().Add(5 * time.Second)
	for r.relay.relayStatus.Load() != kRelayStandBy && time.Now().Before(deadline) {
		time.Sleep(time.Millisecond)
	}
	if stt := r.relay.relayStatus.Load(); stt != kRelayStandBy {
		c.Viol("c13-not-standby-after:tunnel", "relay status is %d after the tunnel episode ended", stt)
		return false
	}
	if !vfCheckDirection(c, "client->server (tunnel)", fromClient.Bytes(), 'c', ct, []string{"#ACT:", "#EXIT:"}, "tunnel") {
		return false
	}
	if !vfCheckDirection(c, "server->client (tunnel)", fromServer.Bytes(), 's', st, []string{"#CFG:"}, "tunnel") {
		return false
	}
	c.Obs("episodes_tunnel", 1)
	return true
}

// vfLoadPoints reads the yield-point table written by the driver.
func vfLoadPoints() map[int][3]string {
	m := map[int][3]string{}
	b, err := os.ReadFile(filepath.Join(os.Getenv("VF_RUNDIR"), "points.tsv"))
	if err != nil {
		return m
	}
	for _, l := range strings.Split(string(b), "\n") {
		f := strings.Split(l, "\t")
		if len(f) == 4 {
			n, _ := strconv.Atoi(f[0])
			m[n] = [3]string{f[1], f[2], f[3]}
		}
	}
	return m
}

func TestVF_C13(t *testing.T) {
	points := vfLoadPoints()
	var relayPoints []int
	pa, pf := -1, -1
	for n, p := range points {
		if p[0] == "relay.go" || p[0] == "buffer.go" {
			relayPoints = append(relayPoints, n)
		}
		if p[2] == "TrzszRelay.addHandshakeBuffer" && (pa < 0 || n < pa) {
			pa = n
		}
		if p[2] == "TrzszRelay.flushHandshakeBuffer" && (pf < 0 || n < pf) {
			pf = n
		}
	}
	sort.Ints(relayPoints)
	kinds := []string{"confirm", "confirm", "cancel", "bad-act", "bad-cfg", "confirm"}
	var cases []vfCase
	mk := func(id string, plan func() *vfYieldPlan, episodes int) {
		cases = append(cases, vfCase{ID: id, Run: func(c *vfCtx) {
			p := plan()
			if p != nil {
				p.trace = true
			}
			vfSetPlan(p)
			defer vfSetPlan(nil)
			rig := vfNewRelayRig(c)
			defer rig.Close()
			rig.relay.SetTunnelConnector(func(port int) net.Conn {
				conn, err := net.DialTimeout("tcp", fmt.Sprintf("127.0.0.1:%d", port), 2*time.Second)
				if err != nil {
					return nil
				}
				return conn
			})
			var hist []string
			for e := 0; e < episodes; e++ {
				kind := kinds[(e+c.R.Intn(len(kinds)))%len(kinds)]
				if e%5 == 3 && !rig.tmux {
					kind = "tunnel"
				}
				hist = append(hist, kind)
				ok := false
				if kind == "tunnel" {
					ok = rig.tunnelEpisode(c.R)
				} else {
					ok = rig.episode(kind, c.R)
				}
				if !ok {
					c.Replay(map[string]interface{}{"episodes": hist, "plan": id})
					return
				}
			}
			windows := 0
			if p != nil {
				// window: a reader entered addHandshakeBuffer (pa) and the flush started (pf) before its next visit
				p.mu.Lock()
				ring := append([]int32(nil), p.ring...)
				p.mu.Unlock()
				waiting := false
				for _, n := range ring {
					switch int(n) {
					case pa:
						waiting = true
					case pf:
						if waiting {
							windows++
							waiting = false
						}
					case pa + 1:
						waiting = false
					}
				}
				visited := 0
				for _, n := range relayPoints {
					if n < len(p.visited) && p.visited[n].Load() > 0 {
						visited++
						c.SetAdd("yield_points_reached", fmt.Sprintf("%s:%s", points[n][0], points[n][1]))
					}
				}
				c.Obs("yield_points_reached_in_case", int64(visited))
			}
			c.Obs("flush_started_while_a_reader_was_entering_the_lock", int64(windows))
			c.Obs("handshakes", int64(episodes))
			c.Nontrivial(fmt.Sprintf("%s episodes=%v windows=%d", id, hist, windows))
			if strings.HasSuffix(id, "-0") {
				c.Sample(map[string]interface{}{"plan": id, "episodes": hist, "window_hits": windows})
			}
		}})
	}
	eps := vfPick(20, 20)
	for i := 0; i < vfPick(24, 400); i++ {
		i := i
		mk(fmt.Sprintf("off-%d", i), func() *vfYieldPlan { return nil }, eps)
	}
	for i := 0; i < vfPick(48, 1200); i++ {
		i := i
		mk(fmt.Sprintf("random-%d", i), func() *vfYieldPlan { return &vfYieldPlan{mode: "random", seed: uint64(vfSeed)*1000003 + uint64(i)} }, eps)
	}
	// one-point delays: every instrumented point of relay.go and buffer.go is held open in turn
	for _, n := range relayPoints {
		n := n
		for rep := 0; rep < vfPick(1, 6); rep++ {
			rep := rep
			mk(fmt.Sprintf("point-%d-%s_%s-%d", n, points[n][0], points[n][1], rep), func() *vfYieldPlan {
				return &vfYieldPlan{mode: "point", pointA: n, delay: time.Duration([]int{2, 8, 1, 20, 4, 12}[rep]) * time.Millisecond}
			}, 8)
		}
	}
	if vfThorough() {
		for i := 0; i < 1200; i++ {
			i := i
			mk(fmt.Sprintf("pair-%d", i), func() *vfYieldPlan {
				r := vfNewRand("pair", i)
				return &vfYieldPlan{mode: "pair", pointA: relayPoints[r.Intn(len(relayPoints))], pointB: relayPoints[r.Intn(len(relayPoints))], delay: time.Duration(1+r.Intn(10)) * time.Millisecond}
			}, 8)
		}
	}
	if len(relayPoints) == 0 {
		cases = append(cases, vfCase{ID: "no-points", Run: func(c *vfCtx) { c.Inconc("no yield points found for relay.go (points.tsv missing?)") }})
	}
	vfRunCases(t, "C13", cases, 1, 300*time.Second)
}
