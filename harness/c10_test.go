//go:build verif

package trzsz

import (
	"fmt"
	"os"
	"path/filepath"
	"sort"
	"strings"
	"sync"
	"testing"
	"time"
)

type vfStopPlan struct {
	Dir       string `json:"gate_direction"` // c2s or s2c
	Index     int    `json:"message_index"`
	Before    bool   `json:"before"`
	Type      string `json:"message_type"`
	Delete    bool   `json:"delete"`
	Initiator string `json:"initiator"` // client, client-ctrlc, server
	Prepop    bool   `json:"prepopulated"`
	DelayUs   int    `json:"delay_us"`
}

func vfStopScenarios() []vfScenario {
	big := []vfFileSpec{{Rel: "first.bin", Size: 40000, Content: "rand"}, {Rel: "second.bin", Size: 300000, Content: "rand"}, {Rel: "third.txt", Size: 9000, Content: "text"}}
	dir := []vfFileSpec{{Rel: "d", Dir: true}, {Rel: "d/a.bin", Size: 120000, Content: "rand"}, {Rel: "d/empty", Dir: true}, {Rel: "d/sub/b.bin", Size: 60000, Content: "rand"}, {Rel: "d/sub/c.txt", Size: 3000, Content: "text"}}
	var sc []vfScenario
	add := func(name string, cfg vfCfg, tops []string, specs []vfFileSpec) {
		cfg.Timeout = 30
		cfg.Quiet = true
		cfg.Bufsize = 4096 // many chunks, so that many stop points lie mid-file
		sc = append(sc, vfScenario{Name: name, Cfg: cfg, Tops: tops, Specs: specs})
	}
	add("down-files", vfCfg{Dir: "down", Direct: true}, []string{"first.bin", "second.bin", "third.txt"}, big)
	add("up-files", vfCfg{Dir: "up", Direct: true, Binary: true}, []string{"first.bin", "second.bin", "third.txt"}, big)
	add("down-dir-y", vfCfg{Dir: "down", Directory: true, Overwrite: true, Direct: true}, []string{"d"}, dir)
	add("up-dir-y", vfCfg{Dir: "up", Directory: true, Overwrite: true, Direct: true}, []string{"d"}, dir)
	add("down-archive", vfCfg{Dir: "down", Directory: true, Direct: true}, []string{"d"}, dir)
	add("up-archive", vfCfg{Dir: "up", Directory: true, Direct: true}, []string{"d"}, dir)
	add("down-p3-y", vfCfg{Dir: "down", Protocol: 3, Overwrite: true, Direct: true}, []string{"first.bin", "second.bin"}, big[:2])
	add("up-p2", vfCfg{Dir: "up", Protocol: 2, Direct: true}, []string{"first.bin", "second.bin"}, big[:2])
	// a directory followed by siblings whose names begin with the directory's name
	pre := []vfFileSpec{{Rel: "proj", Dir: true}, {Rel: "proj/a.bin", Size: 50000, Content: "rand"}, {Rel: "proj.md", Size: 90000, Content: "text"}, {Rel: "proj-notes.bin", Size: 60000, Content: "rand"}}
	add("up-prefix-y", vfCfg{Dir: "up", Directory: true, Overwrite: true, Direct: true}, []string{"proj", "proj.md", "proj-notes.bin"}, pre)
	add("down-prefix-archive", vfCfg{Dir: "down", Directory: true, Direct: true}, []string{"proj", "proj.md", "proj-notes.bin"}, pre)
	add("down-filter", vfCfg{Dir: "down"}, []string{"first.bin", "second.bin", "third.txt"}, big)
	add("up-filter", vfCfg{Dir: "up", Directory: true, Overwrite: true}, []string{"d"}, dir)
	return sc
}

// vfStopOverride lets the one-point family (one case at a time) pin the stop kind and initiator.
var vfStopOverride func(p *vfStopPlan)

func vfIsStoppedText(s string) bool {
	return strings.HasPrefix(s, "Stopped") || strings.Contains(s, "Stopped and deleted")
}

func TestVF_C10(t *testing.T) {
	scs := vfStopScenarios()
	var cases []vfCase
	if os.Getenv("VF_PROCS") != "" {
		vfRunCases(t, "C10", vfProcSignalCases(), 2, 200*time.Second)
		return
	}
	if os.Getenv("VF_POINTS") != "" {
		// one-point delay family: every yield point of buffer.go, transfer.go and pipeline.go is held open
		// for 5 ms in turn while stop cases run one at a time
		points := vfLoadPoints()
		var ns []int
		for n, p := range points {
			if p[0] == "buffer.go" || p[0] == "transfer.go" || p[0] == "pipeline.go" {
				ns = append(ns, n)
			}
		}
		sort.Ints(ns)
		reps := vfPick(2, 12)
		for _, n := range ns {
			for rep := 0; rep < reps; rep++ {
				n, rep := n, rep
				sc := scs[(n+rep)%len(scs)]
				k := n*7 + rep*3 + 3 // mostly client-initiated stop-and-delete / keep
				cases = append(cases, vfCase{ID: fmt.Sprintf("pt%d-%s_%s-%s-s%d", n, points[n][0], points[n][1], sc.Name, k), Run: func(c *vfCtx) {
					vfSetPlan(&vfYieldPlan{mode: "point", pointA: n, delay: 5 * time.Millisecond})
					defer vfSetPlan(nil)
					vfStopOverride = func(p *vfStopPlan) {
						p.Delete = rep%2 == 0
						if rep%4 < 3 {
							p.Initiator = "client"
						}
					}
					vfStopCase(c, n, sc, k)
					c.SetAdd("delayed_points", points[n][0]+":"+points[n][1])
				}})
			}
		}
		vfRunCases(t, "C10", cases, 1, 240*time.Second)
		return
	}
	per := vfPick(52, 800)
	for si, sc := range scs {
		for k := 0; k < per; k++ {
			si, sc, k := si, sc, k
			cases = append(cases, vfCase{ID: fmt.Sprintf("%s-s%d", sc.Name, k), Run: func(c *vfCtx) { vfStopCase(c, si, sc, k) }})
		}
	}
	vfRunCases(t, "C10", cases, 3, 240*time.Second)
}

func vfStopCase(c *vfCtx, si int, sc vfScenario, k int) {
	r := c.R
	src := filepath.Join(c.Dir, "src")
	if err := vfWriteTree(src, sc.Specs, vfNewRand("scenario", sc.Name)); err != nil {
		c.Inconc("%v", err)
		return
	}
	var paths []string
	for _, t := range sc.Tops {
		paths = append(paths, filepath.Join(src, t))
	}
	// baseline for the message list
	bdst := filepath.Join(c.Dir, "dst-base")
	os.MkdirAll(bdst, 0755)
	bcfg := sc.Cfg
	bcfg.Timeout = 60
	bs, bso, bco, fin := vfRunTransfer(c, bcfg, paths, bdst, 120*time.Second)
	if !fin {
		return
	}
	bc2s, bs2c := bs.cliW().Msgs(), bs.srvW().Msgs()
	bs.Close()
	if bso.Kind != "success" || bco.Kind != "success" {
		c.Inconc("baseline failed: %q / %q", vfClip(bso.Text), vfClip(bco.Text))
		return
	}
	os.RemoveAll(bdst)

	plan := vfStopPlan{Delete: k%2 == 1, Prepop: k%3 == 0, DelayUs: []int{0, 0, 200, 3000}[k%4]}
	plan.Dir = []string{"c2s", "s2c"}[(k/2)%2]
	msgs := bc2s
	if plan.Dir == "s2c" {
		msgs = bs2c
	}
	lo := 1 // after the ACT / after the trigger+CFG: the transfer is registered
	if plan.Dir == "s2c" && !sc.Cfg.Direct {
		lo = 2
	}
	if len(msgs) <= lo+1 {
		c.Inconc("transcript too short")
		return
	}
	// walk the transcript: early messages, then spread over the rest, and the tail
	switch k % 5 {
	case 0:
		plan.Index = lo + (k/5)%vfMin(12, len(msgs)-lo)
	case 1:
		plan.Index = len(msgs) - 1 - (k/5)%vfMin(8, len(msgs)-lo)
	default:
		plan.Index = lo + r.Intn(len(msgs)-lo)
	}
	plan.Before = r.Intn(2) == 0
	plan.Type = msgs[plan.Index].Type
	switch k % 7 {
	case 0, 1:
		plan.Initiator = "server"
		plan.Delete = false // the server side only knows a plain stop (signal)
	case 2:
		plan.Initiator = "client-ctrlc"
	default:
		plan.Initiator = "client"
	}
	if vfStopOverride != nil {
		vfStopOverride(&plan)
	}
	if sc.Cfg.Direct && plan.Initiator == "client-ctrlc" {
		plan.Initiator = "client"
	}

	dst := filepath.Join(c.Dir, "dst")
	os.MkdirAll(dst, 0755)
	os.WriteFile(filepath.Join(dst, "keep.txt"), []byte("unrelated, must stay"), 0644)
	if plan.Prepop {
		// pre-existing content under the incoming names (overwrite: being replaced; no overwrite: renamed away from)
		for _, sp := range sc.Specs {
			p := filepath.Join(dst, sp.Rel)
			if sp.Dir {
				os.MkdirAll(p, 0755)
			} else if strings.HasSuffix(sp.Rel, ".bin") {
				os.MkdirAll(filepath.Dir(p), 0755)
				os.WriteFile(p, []byte("previous content of "+sp.Rel), 0644)
			}
		}
		os.MkdirAll(filepath.Join(dst, sc.Tops[0]+"-other"), 0755)
		os.WriteFile(filepath.Join(dst, sc.Tops[0]+"-other", "other.txt"), []byte("other"), 0644)
	}
	old := time.Now().Add(-time.Hour)
	filepath.Walk(dst, func(p string, info os.FileInfo, err error) error {
		if err == nil {
			os.Chtimes(p, old, old)
		}
		return nil
	})
	before := vfSnapshot(dst)
	srcTree := vfSnapshot(src)
	c.Replay(map[string]interface{}{"scenario": sc.Name, "cfg": sc.Cfg, "plan": plan})

	var stopAt time.Time
	var stopMu sync.Mutex
	fired := false
	s := vfNewSession(c, sc.Cfg)
	gate := func(ev vfGateEvent) {
		if ev.Index != plan.Index || ev.Before != plan.Before {
			return
		}
		stopMu.Lock()
		if fired {
			stopMu.Unlock()
			return
		}
		fired = true
		stopMu.Unlock()
		if plan.DelayUs > 0 {
			time.Sleep(time.Duration(plan.DelayUs) * time.Microsecond)
		}
		stopMu.Lock()
		stopAt = time.Now()
		stopMu.Unlock()
		// the user's stop arrives on a goroutine of its own (prompt, signal handler, API caller); in every
		// third case it is delivered synchronously at the gate instead, for an exact crash point
		async := func(f func()) {
			if k%3 == 0 {
				f()
			} else {
				go f()
			}
		}
		switch plan.Initiator {
		case "server":
			async(func() { s.st.stopTransferringFiles(false) })
		case "client":
			if s.cfg.Direct {
				async(func() { s.ct.stopTransferringFiles(plan.Delete) })
			} else {
				async(func() { s.filter.StopTransferringFiles(plan.Delete) })
			}
		case "client-ctrlc":
			// the real path: Ctrl-C, the prompt, a choice
			go func() {
				s.clientIn.WriteAtomic([]byte{0x03})
				time.Sleep(250 * time.Millisecond)
				if plan.Delete {
					s.clientIn.WriteAtomic([]byte("j"))
					time.Sleep(40 * time.Millisecond)
				}
				s.clientIn.WriteAtomic([]byte("\r"))
				stopMu.Lock()
				stopAt = time.Now()
				stopMu.Unlock()
			}()
		}
	}
	if plan.Dir == "c2s" {
		s.cliW().SetGate(gate)
	} else {
		s.srvW().SetGate(gate)
	}
	s.Start(paths, dst)
	okS := s.WaitServer(60 * time.Second)
	okC := s.WaitClient(60 * time.Second)
	tEnd := time.Now()
	stopMu.Lock()
	didFire, at := fired, stopAt
	stopMu.Unlock()
	if !didFire {
		// the transcript was shorter this time: the transfer simply completed
		s.Close()
		c.Obs("stop_point_not_reached", 1)
		return
	}
	if !okS || !okC {
		c.Slow("c10-not-ended", "%s: after a stop (%+v) server returned=%v client returned=%v within 60 s", sc.Name, plan, okS, okC)
		s.Close()
		return
	}
	// (1) bounded return, measured from the stop request
	s.mu.Lock()
	srvRet, cliRet := s.srvRet, s.cliRet
	s.mu.Unlock()
	if !s.cfg.Direct {
		cliRet = tEnd
	}
	worst := srvRet.Sub(at)
	if cliRet.Sub(at) > worst {
		worst = cliRet.Sub(at)
	}
	c.Obs("stop_to_return_ms_max", 0)
	if worst > 6*time.Second && !at.IsZero() {
		c.Slow("c10-slow-stop", "%s: %v between the stop request and the last side returning (bound 6 s); plan %+v", sc.Name, worst, plan)
		s.Close()
		return
	}
	so, co := s.ServerOutcome(), s.ClientOutcome()
	after := vfSnapshot(dst)
	receiver := s.st
	if sc.Cfg.Dir == "down" {
		receiver = s.ct
	}
	_ = receiver
	acked := 0
	if sc.Cfg.Dir == "up" {
		acked = vfCountMD5Acks(s.srvW())
	} else {
		acked = vfCountMD5Acks(s.cliW())
	}
	s.Close()

	// (2) outcomes
	bothSuccess := so.Kind == "success" && co.Kind == "success"
	if bothSuccess {
		names := vfReportedNames(sc.Cfg, so, co)
		if len(names) != len(sc.Tops) {
			c.Viol("c10-success-name-count", "stop %+v: both sides report success with names %q for sources %q", plan, names, sc.Tops)
			return
		}
		for i, top := range sc.Tops {
			if d := vfTreeSubEqual(srcTree, top, after, names[i]); d != "" {
				c.Viol("c10-success-but-incomplete", "stop %+v: success reported but %s", plan, d)
				return
			}
		}
		c.Obs("stops_after_completion", 1)
		c.Nontrivial(fmt.Sprintf("%s completed-before-stop %s#%d", sc.Name, plan.Dir, plan.Index))
		return
	}
	for _, side := range []struct {
		name string
		o    vfOutcome
	}{{"server", so}, {"client", co}} {
		if side.o.Kind == "success" {
			// one side may already have finished its part: then the files must be complete
			names := vfReportedNames(sc.Cfg, so, co)
			ok := len(names) == len(sc.Tops)
			for i := 0; ok && i < len(sc.Tops); i++ {
				ok = vfTreeSubEqual(srcTree, sc.Tops[i], after, names[i]) == ""
			}
			if !ok && !(plan.Delete && side.name == "client" && sc.Cfg.Dir == "up") {
				c.Viol("c10-success-for-incomplete", "stop %+v: %s reports success although not every file is complete at the destination (other side: %s %q)", plan, side.name, map[bool]string{true: "server", false: "client"}[side.name == "client"], vfClip(so.Text+co.Text))
				return
			}
			continue
		}
		if side.o.Kind == "none" {
			continue // rig F: the peer's fail line stands for the client
		}
		if !vfIsStoppedText(side.o.Text) {
			if vfIsTimeoutText(side.o.Text) {
				c.Slow("c10-timeout-instead-of-stopped", "stop %+v: %s ended with %q", plan, side.name, vfClip(side.o.Text))
			} else {
				c.Viol("c10-wrong-reason:"+side.name+":"+vfErrClass(side.o.Text), "stop %+v (message %s): %s does not report that the transfer was stopped but %q", plan, plan.Type, side.name, vfClip(side.o.Text))
			}
			return
		}
	}
	deleted := plan.Delete
	if deleted && !(strings.Contains(so.Text, "deleted") || strings.Contains(co.Text, "deleted")) {
		// the wording is not what the property is about; whether the files are gone is decided below
		c.Obs("delete_stops_reported_as_plain_stopped", 1)
	}
	// (3)/(4) destination
	if !deleted {
		if d := vfTreeUnchanged(before, after, func(k string) bool {
			// with overwrite the incoming names may legitimately have been (partly) replaced
			for _, sp := range sc.Specs {
				if sc.Cfg.Overwrite && k == sp.Rel {
					return true
				}
			}
			return false
		}); d != "" {
			c.Viol("c10-keep-touched-other", "plain stop %+v: %s", plan, d)
			return
		}
		archive := sc.Cfg.EffProtocol() >= 4 && sc.Cfg.Directory && !sc.Cfg.Overwrite
		if !archive && !plan.Prepop {
			files := vfRegularFilesInOrder(sc, src)
			for i := 0; i < acked && i < len(files); i++ {
				se, de := srcTree[files[i]], after[files[i]]
				if se.Size != de.Size || se.Hash != de.Hash {
					c.Viol("c10-kept-file-damaged", "plain stop %+v: file #%d %q was acknowledged as complete but differs from its source after the stop", plan, i, files[i])
					return
				}
				c.Obs("kept_files_compared", 1)
			}
		}
	} else {
		for k, e := range after {
			if _, ok := before[k]; !ok {
				c.Viol("c10-delete-left-created", "stop-and-delete %+v: %q (type %s) was created by this transfer and is still there", plan, k, e.Type)
				return
			}
		}
		for k, b := range before {
			a, ok := after[k]
			incoming := false
			for _, sp := range sc.Specs {
				if sc.Cfg.Overwrite && k == sp.Rel && !sp.Dir {
					incoming = true
				}
			}
			if !ok {
				if !incoming {
					c.Viol("c10-delete-removed-other", "stop-and-delete %+v removed %q, which existed before and is not a file this transfer replaces", plan, k)
					return
				}
				c.Obs("replaced_files_removed", 1)
				continue
			}
			if !incoming && (a.Type != b.Type || a.Size != b.Size || a.Hash != b.Hash || (a.Type == "f" && a.Mtime != b.Mtime)) {
				c.Viol("c10-delete-touched-other", "stop-and-delete %+v changed %q, which existed before", plan, k)
				return
			}
		}
	}
	if leaked := vfWaitNoLeak(c.ID, 3*time.Second); len(leaked) > 0 {
		c.Obs("cases_with_goroutines_left_after_stop", 1)
		for _, l := range vfUniq(leaked) {
			c.SetAdd("goroutines_left_after_stop", l)
		}
	}
	c.Obs("stops_effective", 1)
	c.SetAdd("stop_points", plan.Dir+":"+plan.Type+map[bool]string{true: ":before", false: ":after"}[plan.Before])
	c.Nontrivial(fmt.Sprintf("%s %s#%d %v del=%v by=%s pre=%v", sc.Name, plan.Dir, plan.Index, plan.Before, plan.Delete, plan.Initiator, plan.Prepop))
	if k < 2 {
		c.Sample(map[string]interface{}{"scenario": sc.Name, "plan": plan, "server": vfClip(so.Text), "client": vfClip(co.Text), "stop_to_return_ms": worst.Milliseconds(), "receiver_acked_files": acked})
	}
}
