// vfhelper stands in for tmux, zenity, rz and sz (selected by argv[0]); behaviour is
// chosen through environment variables / marker files so a case can script it.
package main

import (
	"bufio"
	"fmt"
	"io"
	"os"
	"path/filepath"
	"strconv"
	"strings"
	"time"
)

func logLine(s string) {
	if p := os.Getenv("VF_HELPER_LOG"); p != "" {
		f, err := os.OpenFile(p, os.O_CREATE|os.O_APPEND|os.O_WRONLY, 0644)
		if err == nil {
			fmt.Fprintln(f, s)
			f.Close()
		}
	}
}

func main() {
	name := filepath.Base(os.Args[0])
	switch name {
	case "tmux":
		args := strings.Join(os.Args[1:], " ")
		logLine("tmux " + args)
		if strings.Contains(args, "client_tty") {
			r := os.Getenv("VF_TMUX_REPLY")
			if r == "" {
				r = "/nonexistent-tty:0:80"
			}
			fmt.Println(r)
		} else if strings.Contains(args, "status-interval") && strings.Contains(args, "display-message") {
			fmt.Println("15")
		}
		os.Exit(0)
	case "zenity":
		logLine("zenity " + strings.Join(os.Args[1:], " "))
		mode := os.Getenv("VF_ZENITY")
		if mf := os.Getenv("VF_ZENITY_FILE"); mf != "" {
			if b, err := os.ReadFile(mf); err == nil {
				mode = strings.TrimSpace(string(b))
			}
		}
		switch {
		case strings.HasPrefix(mode, "slowpath:"): // slowpath:<ms>:<path> - the dialog stays open for a while
			f := strings.SplitN(mode, ":", 3)
			if len(f) == 3 {
				ms, _ := strconv.Atoi(f[1])
				time.Sleep(time.Duration(ms) * time.Millisecond)
				fmt.Println(f[2])
				os.Exit(0)
			}
			os.Exit(1)
		case strings.HasPrefix(mode, "path:"):
			fmt.Println(mode[5:])
			os.Exit(0)
		case mode == "fail":
			os.Exit(5)
		default:
			os.Exit(1) // cancelled
		}
	case "rz", "sz":
		zmodem(name)
	default:
		fmt.Fprintln(os.Stderr, "vfhelper: unknown personality", name)
		os.Exit(2)
	}
}

// zmodem helper: script file named by VF_ZM_SCRIPT (read at start) with lines:
//   exit N | sleep MS | write HEX | echo-finish | wait-stdin | log-stdin
func zmodem(name string) {
	cwd, _ := os.Getwd()
	logLine(name + " start args=" + strings.Join(os.Args[1:], " ") + " cwd=" + cwd)
	script := ""
	if p := os.Getenv("VF_ZM_SCRIPT"); p != "" {
		b, _ := os.ReadFile(p)
		script = string(b)
	} else if b, err := os.ReadFile(".vf_zm_script"); err == nil {
		script = string(b) // per-case script in the helper's working directory
	}
	stdinLog := os.Getenv("VF_ZM_STDIN_LOG")
	if stdinLog == "" {
		stdinLog = ".vf_zm_stdin"
	}
	if os.Getenv("VF_HELPER_LOG") == "" {
		os.Setenv("VF_HELPER_LOG", ".vf_zm_log")
	}
	logLine(name + " started")
	gotInput := make(chan struct{}, 1)
	go func() {
		r := bufio.NewReader(os.Stdin)
		buf := make([]byte, 4096)
		for {
			n, err := r.Read(buf)
			if n > 0 {
				if stdinLog != "" {
					f, e := os.OpenFile(stdinLog, os.O_CREATE|os.O_APPEND|os.O_WRONLY, 0644)
					if e == nil {
						f.Write(buf[:n])
						f.Close()
					}
				}
				select {
				case gotInput <- struct{}{}:
				default:
				}
			}
			if err != nil {
				if err != io.EOF {
					logLine(name + " stdin error " + err.Error())
				}
				return
			}
		}
	}()
	for _, l := range strings.Split(script, "\n") {
		f := strings.Fields(l)
		if len(f) == 0 {
			continue
		}
		switch f[0] {
		case "exit":
			n, _ := strconv.Atoi(f[1])
			logLine(name + " exit " + f[1])
			os.Exit(n)
		case "sleep":
			n, _ := strconv.Atoi(f[1])
			time.Sleep(time.Duration(n) * time.Millisecond)
		case "write":
			var b []byte
			for i := 0; i+1 < len(f[1]); i += 2 {
				v, _ := strconv.ParseUint(f[1][i:i+2], 16, 8)
				b = append(b, byte(v))
			}
			os.Stdout.Write(b)
		case "echo-finish":
			os.Stdout.Write([]byte("**\x18B0800000000022d\r\x8a"))
		case "wait-stdin":
			select {
			case <-gotInput:
			case <-time.After(30 * time.Second):
			}
		}
	}
	logLine(name + " exit 0 (end of script)")
	os.Exit(0)
}
