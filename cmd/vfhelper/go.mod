module vfhelper

go 1.20
