// vfinstr inserts `vfYield(<n>); ` in front of every statement whose own header
// performs a synchronisation operation (channel op, select, go, Lock/Unlock,
// atomic Load/Store/CompareAndSwap/Swap/Add, WaitGroup Done/Wait). Insertion is
// textual and on the same source line, so line numbers are unchanged.
package main

import (
	"flag"
	"fmt"
	"go/ast"
	"go/parser"
	"go/token"
	"os"
	"path/filepath"
	"sort"
	"strings"
)

var syncNames = map[string]bool{
	"Lock": true, "Unlock": true, "RLock": true, "RUnlock": true,
	"Load": true, "Store": true, "CompareAndSwap": true, "Swap": true, "Add": true,
	"Done": true, "Wait": true,
}

// headerHasSync reports whether the statement itself (not nested bodies) syncs.
func headerHasSync(s ast.Stmt) bool {
	found := false
	var inspectExpr func(n ast.Node)
	inspectExpr = func(n ast.Node) {
		if n == nil || found {
			return
		}
		ast.Inspect(n, func(m ast.Node) bool {
			if found {
				return false
			}
			switch x := m.(type) {
			case *ast.FuncLit:
				return false // body runs elsewhere
			case *ast.UnaryExpr:
				if x.Op == token.ARROW {
					found = true
				}
			case *ast.CallExpr:
				if sel, ok := x.Fun.(*ast.SelectorExpr); ok && syncNames[sel.Sel.Name] {
					found = true
				}
			}
			return true
		})
	}
	switch x := s.(type) {
	case *ast.SendStmt, *ast.SelectStmt, *ast.GoStmt:
		return true
	case *ast.ExprStmt:
		inspectExpr(x.X)
	case *ast.AssignStmt:
		for _, e := range x.Rhs {
			inspectExpr(e)
		}
		for _, e := range x.Lhs {
			inspectExpr(e)
		}
	case *ast.DeferStmt:
		inspectExpr(x.Call)
	case *ast.ReturnStmt:
		for _, e := range x.Results {
			inspectExpr(e)
		}
	case *ast.IfStmt:
		if x.Init != nil {
			if headerHasSync(x.Init) {
				return true
			}
		}
		inspectExpr(x.Cond)
	case *ast.ForStmt:
		if x.Init != nil && headerHasSync(x.Init) {
			return true
		}
		if x.Cond != nil {
			inspectExpr(x.Cond)
		}
	case *ast.RangeStmt:
		inspectExpr(x.X)
	case *ast.SwitchStmt:
		if x.Init != nil && headerHasSync(x.Init) {
			return true
		}
		if x.Tag != nil {
			inspectExpr(x.Tag)
		}
	case *ast.IncDecStmt:
		inspectExpr(x.X)
	case *ast.DeclStmt:
		inspectExpr(x.Decl)
	}
	return found
}

type point struct {
	off  int
	line int
	fn   string
}

func main() {
	out := flag.String("out", "", "output directory")
	table := flag.String("table", "", "table file")
	base := flag.Int("base", 0, "first point number")
	flag.Parse()
	if *out == "" {
		fmt.Fprintln(os.Stderr, "usage: vfinstr -out DIR [-table FILE] files...")
		os.Exit(2)
	}
	n := *base
	var tbl strings.Builder
	for _, path := range flag.Args() {
		src, err := os.ReadFile(path)
		if err != nil {
			fmt.Fprintln(os.Stderr, err)
			os.Exit(1)
		}
		fset := token.NewFileSet()
		f, err := parser.ParseFile(fset, path, src, parser.ParseComments)
		if err != nil {
			fmt.Fprintln(os.Stderr, err)
			os.Exit(1)
		}
		var pts []point
		var walkList func(fn string, list []ast.Stmt)
		var walkStmt func(fn string, s ast.Stmt)
		walkFuncLits := func(fn string, n ast.Node) {
			ast.Inspect(n, func(m ast.Node) bool {
				if fl, ok := m.(*ast.FuncLit); ok {
					walkList(fn+".func", fl.Body.List)
					return false
				}
				return true
			})
		}
		walkList = func(fn string, list []ast.Stmt) {
			for _, s := range list {
				if _, ok := s.(*ast.LabeledStmt); !ok && headerHasSync(s) {
					pos := fset.Position(s.Pos())
					pts = append(pts, point{pos.Offset, pos.Line, fn})
				}
				walkStmt(fn, s)
			}
		}
		walkStmt = func(fn string, s ast.Stmt) {
			switch x := s.(type) {
			case *ast.BlockStmt:
				walkList(fn, x.List)
			case *ast.IfStmt:
				if x.Init != nil {
					walkFuncLits(fn, x.Init)
				}
				walkFuncLits(fn, x.Cond)
				walkList(fn, x.Body.List)
				if x.Else != nil {
					walkStmt(fn, x.Else)
				}
			case *ast.ForStmt:
				walkList(fn, x.Body.List)
			case *ast.RangeStmt:
				walkList(fn, x.Body.List)
			case *ast.SwitchStmt:
				for _, c := range x.Body.List {
					walkList(fn, c.(*ast.CaseClause).Body)
				}
			case *ast.TypeSwitchStmt:
				for _, c := range x.Body.List {
					walkList(fn, c.(*ast.CaseClause).Body)
				}
			case *ast.SelectStmt:
				for _, c := range x.Body.List {
					walkList(fn, c.(*ast.CommClause).Body)
				}
			case *ast.LabeledStmt:
				walkStmt(fn, x.Stmt)
			default:
				walkFuncLits(fn, s)
			}
		}
		for _, d := range f.Decls {
			fd, ok := d.(*ast.FuncDecl)
			if !ok || fd.Body == nil {
				continue
			}
			name := fd.Name.Name
			if fd.Recv != nil && len(fd.Recv.List) > 0 {
				t := fd.Recv.List[0].Type
				if st, ok := t.(*ast.StarExpr); ok {
					t = st.X
				}
				if id, ok := t.(*ast.Ident); ok {
					name = id.Name + "." + name
				}
			}
			walkList(name, fd.Body.List)
		}
		sort.Slice(pts, func(i, j int) bool { return pts[i].off < pts[j].off })
		var b strings.Builder
		last := 0
		prevOff := -1
		for _, p := range pts {
			if p.off == prevOff {
				continue
			}
			prevOff = p.off
			b.Write(src[last:p.off])
			fmt.Fprintf(&b, "vfYield(%d); ", n)
			fmt.Fprintf(&tbl, "%d\t%s\t%d\t%s\n", n, filepath.Base(path), p.line, p.fn)
			n++
			last = p.off
		}
		b.Write(src[last:])
		if err := os.WriteFile(filepath.Join(*out, filepath.Base(path)), []byte(b.String()), 0644); err != nil {
			fmt.Fprintln(os.Stderr, err)
			os.Exit(1)
		}
	}
	if *table != "" {
		if err := os.WriteFile(*table, []byte(tbl.String()), 0644); err != nil {
			fmt.Fprintln(os.Stderr, err)
			os.Exit(1)
		}
	}
}
