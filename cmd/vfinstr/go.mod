module vfinstr

go 1.20
