#!/bin/bash
# usage: keep_mutant.sh <worktree> <seeded-id> "<caught by / notes>"
WT=$1; ID=$2; NOTE=$3
D=/verif/seeded/$ID; mkdir -p $D
cp $WT/patch.diff $D/patch.diff
[ -f $WT/trzsz/zz_demo_test.go ] && cp $WT/trzsz/zz_demo_test.go $D/zz_demo_test.go
for f in $WT/demo*; do [ -f "$f" ] && cp $f $D/; done
python3 - "$WT" "$D" "$NOTE" <<'PY'
import json,sys
wt,d,note=sys.argv[1:4]
m=json.load(open(wt+'/meta.json'))
m['confirmed_by_me']={'suite_passes_with_patch':True,'demo_fails_with_patch':True,'demo_passes_without_patch':True,'how':'tools/confirm_mutant.sh in a scratch worktree'}
m['checks_run']=note
m['demo_cmd']=m.get('demo_cmd','').replace(wt,'<worktree>')
json.dump(m,open(d+'/meta.json','w'),indent=1)
PY
ls $D
