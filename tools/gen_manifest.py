#!/usr/bin/env python3
"""Regenerates /verif/MANIFEST.json from checks_cfg.py + the REGISTERED list below."""
import json, os, sys
VERIF = os.path.dirname(os.path.dirname(os.path.abspath(__file__)))
sys.path.insert(0, VERIF)
from checks_cfg import CHECKS

# property id -> (technique, level text, level note, design ref)
REGISTERED = {
    "C01": ("runtime monitoring: end-to-end differential oracle (tree equality at the system boundary) over seeded configurations, race detector on",
            "Each run executes a seeded sample of real transfers (real client filter or direct client glue, 0-2 real relays, real trz/tsz role functions, loopback tunnel) and judges every one at the boundary: both sides' reports, names shown, destination tree vs source tree. It samples the configuration space; it does not enumerate it. Extra families: the same base name twice among the selected paths (stored under distinct names, or refused before anything is written when overwriting), and a slow link on which one data acknowledgement takes 2.5 s (the sender lowers its buffer size and re-splits prepared chunks).",
            "harness wires, in-process server roles and a small family of real trz/tsz child processes (tunnel, fork mode, ulimit -n 64); fake chooser", "DESIGN.md 5/C01"),
    "C02": ("runtime monitoring: byte-level fault injection on the live connection + 'never success with different content' oracle",
            "Single and multiple byte faults (flip, delete, duplicate, insert, truncate) are injected online at logical offsets of either direction of real transfers, enumerated over every message boundary and header byte of a recorded fault-free transcript; any side reporting success, or the receiver acknowledging a file, is checked against the source bytes. A big-resume family damages (drops, duplicates, bit-flips) single lines of the prefix-hash exchange of a resume spanning two 10 MiB comparison blocks.",
            "faults are random/enumerated, not adversarial MD5 forgeries; offsets are logical positions in one transcript per scenario", "DESIGN.md 5/C02"),
    "C03": ("runtime monitoring: reference-model differential over bounded-exhaustive and random segmentations, promptness monitor",
            "The real trzszBuffer is compared, operation by operation, with a one-cursor reference parser: exhaustively for all short streams x all segmentations x all short operation sequences, and for long random protocol-shaped streams fed incrementally where every completable read must return before more input is supplied.",
            "reference parser is the specification; timeouts not exercised here", "DESIGN.md 5/C03"),
    "C04": ("runtime monitoring: round-trip and streaming differential over generated tables/payloads/split points + online wire-tap invariant on real binary uploads",
            "All byte pairs under both built-in tables, seeded payloads under random announced tables, every streaming chain split arbitrarily (also between leader and code) with and without zstd, rejection of every undefined code, the block-by-block receiver fed well-formed blocks in arbitrary pieces and blocks ending inside an escape pair (must be rejected), and a tap on real binary uploads asserting no protected byte between ACT and EXIT.",
            "random tables are well-formed (injective, codes outside the protected set)", "DESIGN.md 5/C04"),
    "C05": ("runtime monitoring: byte-exact transparency oracle on a live filter across stream classes, option sets and transfer histories",
            "A real TrzszFilter is fed seeded output/input streams (binary, escape soup, near-miss triggers, zmodem/OSC52 fragments, path-like input) under all option sets and chunkings, before and after histories of transfers ending in success, failure, refusal, cancel and stop, of cancelled drags and of drags that typed an upload command the remote did not know; both directions must come out byte-identical.",
            "clipboard and chooser are faked; the real trzsz binary on a pty is covered by a small family (blob out, bytes in, exit status)", "DESIGN.md 5/C05"),
    "C06": ("runtime monitoring: independent recogniser as reference model for the real detector, filter-level ACT counting",
            "Every generated read is judged by a hand-written recogniser of the trigger grammar and vetoes; the real detector (client and relay mode) must agree on firing and fields, its output must have the documented form, and a real filter must write exactly one ACT per genuine trigger and nothing otherwise. The id memory is checked at its boundary (n fresh ids, then a redraw of each of the 51 before the newest).",
            "recogniser encodes the documented per-read rules; ids repeated beyond the 49 most recent tracked ids are don't-care", "DESIGN.md 5/C06"),
    "C07": ("runtime monitoring: before/after destination snapshots (M-tree) over adversarially pre-populated destinations",
            "Real receives (both roles, protocols 1-4, archive mode) into destinations pre-populated with colliding files, directories, name.N series with gaps, type conflicts and exhausted name spaces; every pre-existing entry must be byte- and mtime-identical afterwards and every incoming path must sit under one fresh reported name.",
            "mtime/size/hash snapshot; inode-level effects such as atime are not compared", "DESIGN.md 5/C07"),
    "C08": ("runtime monitoring: (source, previous destination) relation enumeration with wire-level conservation check of the agreed resume offset",
            "For each relation (absent, empty, prefix, identical, longer, diverging at chosen offsets incl. the 10 MiB block boundaries) a real overwrite transfer is run in both directions and protocols 2-4; the destination must equal the source and the offset both ends agreed on (read from the wire tap) must not exceed the common prefix.",
            "10 MiB-scale pairs only in a subset (quick) / full relation (thorough)", "DESIGN.md 5/C08"),
    "C09": ("runtime monitoring: hostile-name enumeration with canary file-system snapshots around the chosen directory",
            "Hostile names ('..' at every index, separators, absolute paths, empty elements, long names; in NAME messages and archive headers) are sent by the real sender from doctored records or by a scripted peer to both receiving roles; nothing outside the destination may be created, changed or removed and every reported path must resolve inside it. Name shapes include elements with trailing and leading separators ('../', '/..', '/../x').",
            "file-system snapshot of the sandbox parent, not syscall tracing, in the quick tier", "DESIGN.md 5/C09"),
    "C10": ("runtime monitoring: stop injection at every message boundary (crash-point enumeration) with bounded-return, outcome and deletion-set oracles, race detector on",
            "A stop (keep/delete, client or server initiated) is injected before/after every message of a recorded transcript and at PRNG instants under schedule perturbation; both sides must return within the bound with a stopped outcome (or verified success), kept files must equal their sources and the deletion set must be exactly what the transfer created. Real SIGINT/SIGTERM are also delivered to trz and tsz in the handshake window (trigger printed, nobody answered yet); scenarios include a directory followed by siblings sharing its name prefix.",
            "bounds are wall-clock with a confirm-alone rule; real SIGINT/SIGTERM delivery to a tsz process in a small family", "DESIGN.md 5/C10"),
    "C11": ("runtime monitoring: fault enumeration (silence, write errors, local file faults) x schedule perturbation with bounded-return and goroutine-leak monitors",
            "After the handshake one fault is injected per run at every message index; both roles must return within timeout+bound with an error, the peer must be told the cause when the path still works, and no goroutine of the case may remain in transfer code.",
            "liveness restated as bounded return under a 1-2 s configured timeout", "DESIGN.md 5/C11"),
    "C12": ("runtime monitoring: scripted hostile peer (field mutation at every protocol stage) with crash, memory-cap and usability monitors in child processes",
            "A puppet peer replays well-formed transcripts with one field replaced by a boundary value at each stage; the attacked real role runs in a child with RLIMIT_AS, must not crash or allocate beyond the cap, must end with an error, and the filter must stay usable. Hostile entry headers (sizes, perms, path lists, ids) are written straight into the real archive writer; every truncation of the sequences the output scanners look for ends a read.",
            "allocation cap enforced by RLIMIT_AS on a non-race child; unstructured fuzz streams are sampled", "DESIGN.md 5/C12"),
    "C13": ("runtime monitoring: unique-token conservation checker on both relay directions under yield-point schedule perturbation, race detector on",
            "Tagged tokens flow through a real relay in both directions around scripted handshakes (confirm, cancel, malformed ACT/CFG) with arrival patterns before/inside/straddling/after the ACT and CFG lines; every yield point of relay.go and buffer.go is delayed in turn; output must be input with only the consumed line replaced, token order preserved, nothing crossing sides. Family tmux runs the relay in tmux normal mode (fake tmux, client tty = FIFO) with a per-sink token oracle.",
            "schedules are those produced by the perturbation plans over the instrumented points", "DESIGN.md 5/C13"),
    "C14": ("runtime monitoring: wire-tap comparison of ACT/CFG on both sides of each relay + end-to-end tree equality + standby/usable-again probes over transfer sequences; scripted-ends differential (relayed vs direct configuration) around one real relay",
            "Transfers run through 1-2 real relays for client capability sets x server option sets; ACT' and CFG' are decoded from the taps and must only narrow; after every ending the relay must be in standby, transparent, and the next transfer must work. A second family puts one real relay between scripted ends (Windows-newline client, Windows server, protocol 1..9, any binary/dir/fork set, seeded CFG, seven endings incl. a CFG that is not a configuration, tunnelled ACTs with protocol above 4): the client's resulting configuration must equal the one a direct connection gives apart from the relay's tmux additions.",
            "servers are conforming (escape table only with binary offered)", "DESIGN.md 5/C14"),
    "C15": ("runtime monitoring: producer/consumer differential on real archive reader/writer with tree-equality oracle, size conservation and descriptor-count monitor",
            "Real archiveFileReader output is checked against the announced size and fed to the real archiveFileWriter in every single cut / k-byte pieces / random cuts; the reconstructed tree must equal the source; shrinking sources must raise an error; open descriptors are sampled with GC disabled and must not grow with the entry count. Segments are handed to the writer in a reused scratch buffer that is scribbled on after each write.",
            "one case at a time per child so descriptor counts are attributable", "DESIGN.md 5/C15"),
    "C16": ("runtime monitoring: noise-grammar generators vs. the real recvLine, all two-way cuts / seeded segmentations",
            "Known payload lines are decorated with the documented tmux and Windows-console noise at every position (single item) and with random multiplicities, fed in all two-way cuts or seeded segmentations, and must be read back exactly; an inserted Ctrl-C must interrupt.",
            "noise grammars deliberately no wider than the code and its captured vectors document", "DESIGN.md 5/C16"),
    "C17": ("runtime monitoring: attacker connections against the real tunnel listener/connector with per-connection byte monitors, adoption observed through protocol effects and the kernel receive queue, race detector on",
            "Probing connections (wrong greeting, right prefix wrong id, duplicate genuine greeting, split greeting, silent, flooding) are raced against the genuine client; each must receive zero bytes and be closed unless adopted, at most one connection is adopted, in-band bytes are ignored once the tunnel is agreed, and a missing tunnel falls back in-band with the same result. Twin cases present the right greeting on a second connection at the same moment as the genuine one (at most one adopted; adoption read from the kernel receive queue); connector 'answer-late' makes the server adopt a connection the client has given up on.",
            "loopback sockets; relay tunnel attacked the same way only in the thorough tier", "DESIGN.md 5/C17"),
    "C18": ("runtime monitoring: pause/resume injection at every message boundary with pause-window silence monitor on the wire tap",
            "A pause is begun at each gate point and resumed after lengths below, around and above the timeout; short pauses must end in success with identical files, any pause must end within the bound without false success, and between pause and resume the paused side may start at most one DATA message, everything else being keep-alives. Extra plans: server silent after the resume, server silent from before the pause (the read blocked across the resume must still time out), a second pause of 0.9 x timeout inside a return-link stall on a slow busy uplink (must succeed), and a pause that begins while a block is being sent in pieces after the sender reduced its buffer size (one acknowledgement held for 6.5 s under a 20 s time-out).",
            "wall-clock pause lengths relative to a 3 s configured timeout; confirm-alone rule for misses", "DESIGN.md 5/C18"),
    "C19": ("runtime monitoring: scripted fake rz/sz helper and scripted server against the real zmodem bridge with hand-back probes",
            "For each (helper behaviour, server behaviour, user action) the session must send the cancel sequence to the side still waiting and, after the server has been quiet for 1.5 s, pass a probe text through to the terminal and typed input to the server. In more than half of the cases the user types first (a letter and Ctrl-C) before the remote side says anything after the session.",
            "fake helper stands in for lrzsz; the 20 s inactivity timers only in the thorough tier", "DESIGN.md 5/C19"),
    "C20": ("runtime monitoring: assertion after every call on a recording writer with a virtual clock, child under RLIMIT_AS",
            "Every string the real progress bar writes is measured (display width after removing zero-width sequences), its percentage parsed and checked for range and monotonicity, panics are caught per call and allocation blow-ups kill the memory-limited child; widths 1..500 are exhaustive for a fixed battery, everything else seeded. Transfers of 12 and 101 files are walked through completely (the counter grows by a digit), and the stop prompt opens and closes inside the step histories.",
            "width measured with go-runewidth, the project's own model", "DESIGN.md 5/C20"),
}

REASONS_NOT_YET = "runtime monitoring applies (DESIGN.md section 5) but the check is not registered yet: its rig is still under construction or has not passed the mutation-sanity / clean-sweep gate"


def main():
    reg = [l.strip() for l in open(os.path.join(VERIF, "REGISTERED.txt")) if l.strip() and not l.startswith("#")]
    props = [json.loads(l)["id"] for l in open(os.path.join(VERIF, "properties.jsonl"))]
    checks = []
    for pid in props:
        if pid not in reg:
            continue
        tech, text, note, ref = REGISTERED[pid]
        cfg = CHECKS[pid]
        checks.append({
            "property_id": pid,
            "quick_cmd": "./check %s quick" % pid,
            "thorough_cmd": "./check %s thorough" % pid,
            "evidence_file": "/verif/evidence/%s.json" % pid,
            "replay_cmd_template": "./check %s quick --replay {path}" % pid,
            "engine": "vf",
            "level_claimed": {"category": cfg.get("level", "exploration"), "text": text, "design_ref": ref},
            "level_note": note,
            "technique": tech,
        })
    m = {
        "version": 1,
        "setup_cmd": "./setup.sh",
        "hooks": {
            "guard": "verif",
            "enable": "go test -c -tags verif -overlay run/<check>/overlay.json -modfile run/<check>/go.mod (harness files /verif/harness/*_test.go + vf_hooks.go and yield-point-instrumented copies of relay.go buffer.go pipeline.go transfer.go append.go zmodem.go filter.go produced by bin/vfinstr are added through -overlay; nothing of the harness is committed to /repo)",
            "baseline_off_cmd": "cd /repo && GOFLAGS=-mod=mod GOPROXY=off GOSUMDB=off GOTOOLCHAIN=local go test -json -vet=off -count=1 -timeout 25m ./...",
            "source_commits": [],
            "add_only": True,
        },
        "engines": [{"name": "vf", "path": "/verif/check", "serves_properties": reg,
                     "kind_free_text": "python driver + Go harness compiled into package trzsz through go build -overlay; child processes per shard, journal, race-detector log triage, evidence writer"}],
        "checks": checks,
        "not_applicable": [{"property_id": p, "reason": REASONS_NOT_YET} for p in props if p not in reg],
        "notes": "Technique family: runtime monitoring and sanitizers. Verdicts: exit 0 held on what was observed, exit 1 VIOLATION, exit 2 INCONCLUSIVE (never folded into the others). Known findings and fixed defects: KNOWN_FINDINGS.txt. Seeded changes used to test the checks: seeded/.",
    }
    json.dump(m, open(os.path.join(VERIF, "MANIFEST.json"), "w"), indent=1)
    print("registered:", reg)


if __name__ == "__main__":
    main()
