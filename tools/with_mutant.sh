#!/bin/bash
# usage: with_mutant.sh <seeded-id> <check-id> [tier]   -- runs a check against a scratch worktree with the seeded patch applied
ID=$1; CHK=$2; TIER=${3:-quick}
WT=/tmp/wt/m-$ID
git -C /repo worktree remove --force $WT 2>/dev/null
git -C /repo worktree add -q --detach $WT HEAD || exit 2
git -C $WT apply /verif/seeded/$ID/patch.diff || { echo "patch does not apply"; git -C /repo worktree remove --force $WT; exit 2; }
VF_REPO=$WT /verif/check $CHK $TIER; RC=$?
git -C /repo worktree remove --force $WT
rm -rf /verif/run/$CHK-$TIER-mut-m-$ID
echo "MUTANT $ID CHECK $CHK rc=$RC"
exit $RC
