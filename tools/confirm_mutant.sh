#!/bin/bash
# usage: confirm_mutant.sh <worktree>   -- confirms: suite passes with patch, demo fails with patch, demo passes without
export GOFLAGS=-mod=mod GOPROXY=off GOSUMDB=off GOTOOLCHAIN=local; unset TMUX
WT=$1
cd $WT || exit 2
DEMO=$(python3 -c "import json;print(json.load(open('meta.json'))['demo_cmd'])")
echo "demo_cmd: $DEMO"
git diff --quiet -- trzsz/*.go ':!trzsz/zz_demo_test.go' && { echo "patch not applied?"; }
git diff -- . ':!trzsz/zz_demo_test.go' ':!zz_demo_test.go' > /tmp/wt/_cur.diff
# suite with patch, demo moved away
mkdir -p /tmp/wt/_hold; [ -f trzsz/zz_demo_test.go ] && mv trzsz/zz_demo_test.go /tmp/wt/_hold/
[ -f zz_demo_test.go ] && mv zz_demo_test.go /tmp/wt/_hold/root_zz_demo_test.go
go test -vet=off -count=1 ./... > /tmp/wt/_suite.log 2>&1; S=$?; tail -3 /tmp/wt/_suite.log
[ -f /tmp/wt/_hold/zz_demo_test.go ] && mv /tmp/wt/_hold/zz_demo_test.go trzsz/
echo "SUITE_WITH_PATCH rc=$S"
(cd $WT && timeout 600 bash -c "$DEMO" > /tmp/wt/_d1.log 2>&1); D1=$?; tail -5 /tmp/wt/_d1.log
echo "DEMO_WITH_PATCH rc=$D1 (want != 0)"
git apply -R /tmp/wt/_cur.diff || { echo "cannot revert"; exit 2; }
(cd $WT && timeout 600 bash -c "$DEMO" > /tmp/wt/_d2.log 2>&1); D2=$?; tail -5 /tmp/wt/_d2.log
echo "DEMO_WITHOUT_PATCH rc=$D2 (want 0)"
git apply /tmp/wt/_cur.diff
[ -f /tmp/wt/_hold/root_zz_demo_test.go ] && mv /tmp/wt/_hold/root_zz_demo_test.go zz_demo_test.go
echo "RESULT suite=$S demo_with=$D1 demo_without=$D2"
