#!/bin/bash
# usage: run_all.sh [tier] [seed]  -- runs every registered check once, prints a summary line per check
TIER=${1:-quick}; SEED=${2:-1}
cd "$(dirname "$0")/.."; mkdir -p run
for id in $(cat REGISTERED.txt); do
  s=$(date +%s)
  VERIF_SEED=$SEED ./check $id $TIER > run/all-$id-$TIER-$SEED.log 2>&1; rc=$?
  e=$(( $(date +%s) - s ))
  echo "$id rc=$rc ${e}s $(tail -1 run/all-$id-$TIER-$SEED.log | cut -c1-200)"
done
