#!/bin/bash
# usage: run_all.sh [tier] [seed] [ids...]  -- runs every registered check (or the listed ones) once, prints a summary line per check
TIER=${1:-quick}; SEED=${2:-1}
cd "$(dirname "$0")/.."; mkdir -p run
shift; shift
IDS="$@"; [ -z "$IDS" ] && IDS=$(cat REGISTERED.txt)
for id in $IDS; do
  s=$(date +%s)
  VERIF_SEED=$SEED ./check $id $TIER > run/all-$id-$TIER-$SEED.log 2>&1; rc=$?
  e=$(( $(date +%s) - s ))
  echo "$id rc=$rc ${e}s $(tail -1 run/all-$id-$TIER-$SEED.log | cut -c1-200)"
done
