# Per-check configuration for the driver.
COMMON_ASSUME = [
    "in-process server roles call the same functions TrzMain/TszMain's worker goroutine calls (recvFiles/sendFiles, serverError, cleanup)",
    "fake tmux/zenity/rz/sz stand in for the real programs; Windows/macOS-only code paths are not executed",
    "verdict covers only the executions produced by this run (seeded case list), not all inputs or schedules",
]
CHECKS = {
    "C01": {
        "test": "TestVF_C01", "race": True, "level": "exploration",
        "race_anchor_files": ["transfer.go", "pipeline.go", "append.go", "archive.go", "trz.go", "tsz.go", "filter.go", "comm.go"],
        "rule": "cases = seeded draws of (source tree recipe x configuration: direction, base64/binary, escape-all, compress, protocol 1-4, bufsize, overwrite, directory, relays 0-2, tunnel, '!\\n' framing family, wire segmentation policy, filter or direct client); a case is non-trivial when the transfer completed and the destination tree was compared with the source; distinct = distinct (configuration signature, tree shape)",
        "assumptions": COMMON_ASSUME,
        "quick": {"shards": 14, "parallel": 14, "timeout": 900, "min_nontrivial": 100,
                  "families": [{"name": "win", "shards": 2, "env": {"VF_WIN": "1"}}]},
        "thorough": {"shards": 16, "parallel": 16, "timeout": 3000, "min_nontrivial": 1000,
                     "families": [{"name": "win", "shards": 4, "env": {"VF_WIN": "1"}}]},
    },
    "C03": {
        "test": "TestVF_C03", "race": True, "level": "exploration",
        "race_anchor_files": ["buffer.go"], "race_is_violation": True,
        "exhaustive_key": "exhaustive_streams",
        "exhaustive_note": "the bounded part enumerates every stream up to the stated length over {a,b,LF,CR,Ctrl-C} x every segmentation x every op sequence of length <= 3 over {line, junk-line, block(0|1|2)} plus block(len); the random part is sampled",
        "rule": "bounded-exhaustive: all streams of length <= 5 (thorough 7) over {a,b,LF,CR,0x03} x all 2^(n-1) segmentations x all op sequences (<=3 ops) the reference parser can complete, results and popBuffer remainder compared with the one-cursor reference parser; random: protocol-shaped streams (lines, wrapped lines, binary blocks with embedded delimiters, interrupts) fed segment by segment to a concurrently reading trzszBuffer, every op the model calls completable must return before the next segment is supplied. non-trivial = the real buffer executed at least one op and its results were compared; distinct = distinct (length,prefix) classes / (ops,segments,policy,len) tuples",
        "assumptions": ["reference parser (40 lines) is the specification of line / junk-tolerant line / sized block reads", "timeouts are not exercised here (nil timeout); C11/C18 cover them"],
        "quick": {"shards": 16, "parallel": 16, "timeout": 600, "min_nontrivial": 100},
        "thorough": {"shards": 16, "parallel": 16, "timeout": 3000, "min_nontrivial": 1000},
    },
    "C04": {
        "test": "TestVF_C04", "race": True, "level": "exploration",
        "race_anchor_files": ["escape.go", "pipeline.go"],
        "rule": "all 256 single bytes and all 65536 byte pairs under both built-in tables; seeded payloads (0..300 KB, thorough 1 MiB; biased to protected bytes and runs of the leader) x {both built-ins as parsed from a real CFG, random well-formed announced tables parsed by the real UnmarshalJSON} through escapeData/unescapeData and through the real streaming chain escapeWriter -> arbitrary re-segmentation (incl. between leader and code) -> recvDataReader -> escapeReader with destination sizes {1,2,3,7,4096,32768}, with and without zstd in front; every undefined code must be rejected; real binary uploads through the filter with a tap asserting that no protected byte appears between ACT and EXIT. non-trivial = round trip and both streaming directions were compared (or, for wire cases, the upload completed and its tap was scanned); distinct = (table, payload size) / case id",
        "assumptions": ["random tables: injective, always containing the leader, codes outside the protected set (what a conforming server announces)"],
        "quick": {"shards": 16, "parallel": 16, "timeout": 600, "min_nontrivial": 100},
        "thorough": {"shards": 16, "parallel": 16, "timeout": 3000, "min_nontrivial": 1000},
    },
    "C20": {
        "test": "TestVF_C20", "race": False, "instrument": False, "level": "exploration", "rlimit_as_gb": 4,
        "exhaustive_key": "widths_exhaustive_batteries",
        "exhaustive_note": "exhaustive only over widths 1..500 for the fixed battery of (name, count, size, history) tuples; everything else is sampled",
        "rule": "real textProgressBar with a recording writer and a virtual clock (timeNowFunc); after every call each written string is stripped of zero-width control sequences (CR, CSI sequences incl. SGR/cursor, tmux octal wrapper decoded) and its runewidth display width must be <= the effective width (columns, or pane-1) whenever that is >= 5; percentage must parse, lie in 0..100 and not decrease between two onName calls; no call may panic; the child runs with RLIMIT_AS 4 GiB so an allocation blow-up kills it and is attributed to the journalled case. Workload: widths 1..500 exhaustively x a battery of 40 (name class, count, size, history) tuples, plus seeded cases over widths x names (ASCII/CJK/emoji/combining/control/invalid UTF-8) x counts x sizes 0..2^62 x histories (monotone, repeats, regressions, protocol resume sequence, hostile steps beyond the size/negative/2^63-1) x pane/CR/tmux-prefix modes x column changes x colour pair. non-trivial = at least one line was rendered and checked; distinct = distinct parameter tuples",
        "assumptions": ["display width is measured with go-runewidth, the model the project itself uses", "control characters inside names are zero-width by that model; cursor movement caused by them is not claimed"],
        "quick": {"shards": 16, "parallel": 16, "timeout": 600, "min_nontrivial": 100},
        "thorough": {"shards": 16, "parallel": 16, "timeout": 3000, "min_nontrivial": 1000},
    },
    "C16": {
        "test": "TestVF_C16", "race": True, "level": "exploration",
        "race_anchor_files": ["buffer.go"],
        "rule": "payload lines '#TYPE:payload' over the protocol alphabet (lengths 1..2000, incl. runs of one letter) rendered with the documented noise: tmux reader - CR LF wraps at any position and multiplicity (also directly before the terminating LF), '#'-free junk before the marker, tmux status DCS pairs after the marker; Windows reader - CSI sequences, digit-parameterised cursor moves, padding (space, tab, CR, LF, BS), the re-print pattern, the cursor-home pattern, '!' inside CSI, trailing junk after the terminator; fed through addReceivedData in every two-way cut / one-byte reads (single-item part, every insertion position) or seeded segmentations (random part) and read back with the real recvLine; a Ctrl-C inserted anywhere before the terminator must interrupt. non-trivial = at least one noise item or an interrupt was present and the line(s) were compared; distinct = (reader, lines, noise kinds, segments, policy, length)",
        "assumptions": ["noise grammars are no wider than what buffer.go/transfer.go and the repository's captured vectors document (see DESIGN C16): LF together with a digit-parameterised cursor move between two payload letters only occurs as the re-print or cursor-home pattern"],
        "quick": {"shards": 16, "parallel": 16, "timeout": 600, "min_nontrivial": 100},
        "thorough": {"shards": 16, "parallel": 16, "timeout": 3000, "min_nontrivial": 1000},
    },
}
