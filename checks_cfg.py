# Per-check configuration for the driver.
COMMON_ASSUME = [
    "in-process server roles call the same functions TrzMain/TszMain's worker goroutine calls (recvFiles/sendFiles, serverError, cleanup)",
    "fake tmux/zenity/rz/sz stand in for the real programs; Windows/macOS-only code paths are not executed",
    "verdict covers only the executions produced by this run (seeded case list), not all inputs or schedules",
]
CHECKS = {
    "C01": {
        "test": "TestVF_C01", "race": True, "level": "exploration",
        "race_anchor_files": ["transfer.go", "pipeline.go", "append.go", "archive.go", "trz.go", "tsz.go", "filter.go", "comm.go"],
        "rule": "cases = seeded draws of (source tree recipe x configuration: direction, base64/binary, escape-all, compress, protocol 1-4, bufsize, overwrite, directory, relays 0-2, tunnel, '!\\n' framing family, wire segmentation policy, filter or direct client); a case is non-trivial when the transfer completed and the destination tree was compared with the source; distinct = distinct (configuration signature, tree shape)",
        "assumptions": COMMON_ASSUME,
        "quick": {"shards": 14, "parallel": 14, "timeout": 900, "min_nontrivial": 100,
                  "families": [{"name": "win", "shards": 2, "env": {"VF_WIN": "1"}}]},
        "thorough": {"shards": 16, "parallel": 16, "timeout": 3000, "min_nontrivial": 1000,
                     "families": [{"name": "win", "shards": 4, "env": {"VF_WIN": "1"}}]},
    },
    "C03": {
        "test": "TestVF_C03", "race": True, "level": "exploration",
        "race_anchor_files": ["buffer.go"], "race_is_violation": True,
        "exhaustive_key": "exhaustive_streams",
        "exhaustive_note": "the bounded part enumerates every stream up to the stated length over {a,b,LF,CR,Ctrl-C} x every segmentation x every op sequence of length <= 3 over {line, junk-line, block(0|1|2)} plus block(len); the random part is sampled",
        "rule": "bounded-exhaustive: all streams of length <= 5 (thorough 7) over {a,b,LF,CR,0x03} x all 2^(n-1) segmentations x all op sequences (<=3 ops) the reference parser can complete, results and popBuffer remainder compared with the one-cursor reference parser; random: protocol-shaped streams (lines, wrapped lines, binary blocks with embedded delimiters, interrupts) fed segment by segment to a concurrently reading trzszBuffer, every op the model calls completable must return before the next segment is supplied. non-trivial = the real buffer executed at least one op and its results were compared; distinct = distinct (length,prefix) classes / (ops,segments,policy,len) tuples",
        "assumptions": ["reference parser (40 lines) is the specification of line / junk-tolerant line / sized block reads", "timeouts are not exercised here (nil timeout); C11/C18 cover them"],
        "quick": {"shards": 16, "parallel": 16, "timeout": 600, "min_nontrivial": 100},
        "thorough": {"shards": 16, "parallel": 16, "timeout": 3000, "min_nontrivial": 1000},
    },
    "C04": {
        "test": "TestVF_C04", "race": True, "level": "exploration",
        "race_anchor_files": ["escape.go", "pipeline.go"],
        "rule": "all 256 single bytes and all 65536 byte pairs under both built-in tables; seeded payloads (0..300 KB, thorough 1 MiB; biased to protected bytes and runs of the leader) x {both built-ins as parsed from a real CFG, random well-formed announced tables parsed by the real UnmarshalJSON} through escapeData/unescapeData and through the real streaming chain escapeWriter -> arbitrary re-segmentation (incl. between leader and code) -> recvDataReader -> escapeReader with destination sizes {1,2,3,7,4096,32768}, with and without zstd in front; every undefined code must be rejected; real binary uploads through the filter with a tap asserting that no protected byte appears between ACT and EXIT. non-trivial = round trip and both streaming directions were compared (or, for wire cases, the upload completed and its tap was scanned); distinct = (table, payload size) / case id",
        "assumptions": ["random tables: injective, always containing the leader, codes outside the protected set (what a conforming server announces)"],
        "quick": {"shards": 16, "parallel": 16, "timeout": 600, "min_nontrivial": 100},
        "thorough": {"shards": 16, "parallel": 16, "timeout": 3000, "min_nontrivial": 1000},
    },
}
