# Per-check configuration for the driver.
COMMON_ASSUME = [
    "in-process server roles call the same functions TrzMain/TszMain's worker goroutine calls (recvFiles/sendFiles, serverError, cleanup)",
    "fake tmux/zenity/rz/sz stand in for the real programs; Windows/macOS-only code paths are not executed",
    "verdict covers only the executions produced by this run (seeded case list), not all inputs or schedules",
]
CHECKS = {
    "C01": {
        "test": "TestVF_C01", "race": True, "level": "exploration",
        "race_anchor_files": ["transfer.go", "pipeline.go", "append.go", "archive.go", "trz.go", "tsz.go", "filter.go", "comm.go"],
        "rule": "cases = seeded draws of (source tree recipe x configuration: direction, base64/binary, escape-all, compress, protocol 1-4, bufsize, overwrite, directory, relays 0-2, tunnel, '!\\n' framing family, wire segmentation policy, filter or direct client); a case is non-trivial when the transfer completed and the destination tree was compared with the source; distinct = distinct (configuration signature, tree shape)",
        "assumptions": COMMON_ASSUME,
        "quick": {"shards": 14, "parallel": 14, "timeout": 900, "min_nontrivial": 100,
                  "families": [{"name": "win", "shards": 2, "env": {"VF_WIN": "1"}}]},
        "thorough": {"shards": 16, "parallel": 16, "timeout": 3000, "min_nontrivial": 1000,
                     "families": [{"name": "win", "shards": 4, "env": {"VF_WIN": "1"}}]},
    },
}
